#!/bin/bash
# Re-confirm every filed seeded change against the current checks and rewrite its meta.json.
# usage: tools/rerun_seeded.sh [id-prefix]
cd "$(dirname "$0")/.."
n=0; missed=0
for d in seeded/${1:-}*/; do
  id=$(basename "$d"); prop=${id%%-*}
  out=$(timeout 3000 tools/try_patch.py $prop "$d" --keep "$id" 2>&1)
  v=$(echo "$out" | python3 -c "import json,sys; d=json.load(sys.stdin); print(d['verdict'], 'valid' if d['valid_seed'] else 'INVALID', d['check_wall_s'])" 2>/dev/null || echo "TOOL-ERROR")
  echo "$id $v"
  n=$((n+1)); case "$v" in CAUGHT*) ;; *) missed=$((missed+1));; esac
done
echo "seeded: $n re-run, $missed not caught"
