#!/venv/bin/python
"""Regenerate /verif/MANIFEST.json from simbib.registry (run by hand; the result is committed)."""
import json
import os
import sys

HERE = os.path.dirname(os.path.dirname(os.path.abspath(__file__)))
sys.path.insert(0, HERE)
from simbib import registry  # noqa: E402

BASELINE = ("cd /repo && /venv/bin/python -m pytest -ra -q -p no:cacheprovider --timeout=900 "
            "--continue-on-collection-errors")

checks = []
for pid in sorted(registry.CHECKS):
    spec = registry.CHECKS[pid]
    m = spec["manifest"]
    checks.append({
        "property_id": pid,
        "quick_cmd": f"./check {pid} --tier quick",
        "thorough_cmd": f"./check {pid} --tier thorough",
        "evidence_file": f"evidence/{pid}.json",
        "replay_cmd_template": f"./check {pid} --replay {{path}}",
        "engine": "simbib",
        "level_claimed": {"category": "exploration", "text": m["text"], "design_ref": m["design_ref"]},
        "level_note": m["note"],
        "technique": m["technique"],
    })

manifest = {
    "version": 1,
    "setup_cmd": "./check selftest --setup",
    "hooks": {
        "guard": "BIBTEXPARSER_VERIF",
        "enable": "no source hook exists: every seam the simulator needs is already in the code (module-global open() in "
                  "bibtexparser/entrypoint.py is shadowed at run time, encoder=/decoder= constructor arguments, middleware stacks). "
                  "./check exports BIBTEXPARSER_VERIF=1 for uniformity; nothing in /repo reads it.",
        "baseline_off_cmd": BASELINE,
        "source_commits": [],
        "add_only": True,
    },
    "engines": [{
        "name": "simbib",
        "path": "simbib/",
        "serves_properties": sorted(registry.CHECKS),
        "kind_free_text": "single-process deterministic simulator: seeded generator of operation+fault histories, interpreter against "
                          "the real code and a reference model, step-wise invariants, ddmin minimiser, replay files (single run or multi-run session); 16 forked workers, one fresh process per chunk of runs",
    }],
    "checks": checks,
    "not_applicable": [{"property_id": p, "reason": r} for p, r in sorted(registry.NOT_APPLICABLE.items())],
    "notes": "See DESIGN.md. Exit codes of ./check: 0 held / only known findings; 1 VIOLATION; 2 HARNESS-ERROR; 3 replay NOT-REPRODUCED. "
             "known_findings.json lists recorded (status=known) and repaired (status=fixed) defects; fix: commits live in /repo. "
             "Replay files are of two kinds: one run (op list), or a session (kind=session: the op lists of earlier runs of the same "
             "process, then the failing run) for violations that need state the code under test keeps between calls; "
             "./check <id> --replay replays both in a fresh interpreter.",
}
with open(os.path.join(HERE, "MANIFEST.json"), "w") as f:
    json.dump(manifest, f, indent=1)
    f.write("\n")
print("wrote MANIFEST.json with", len(checks), "checks,", len(manifest["not_applicable"]), "not applicable")
