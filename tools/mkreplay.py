#!/venv/bin/python
"""Hand-written store-machine replay: mkreplay.py <prop> <out.json> <text> [via]
Executes [seed(text), load] and records the first violation of <prop>."""
import json, os, sys
sys.path.insert(0, os.path.dirname(os.path.dirname(os.path.abspath(__file__))))
from simbib import repo  # noqa
from simbib.machines import store
prop, out, text = sys.argv[1], sys.argv[2], sys.argv[3].encode().decode("unicode_escape")
via = sys.argv[4] if len(sys.argv) > 4 else "string"
run = {"machine": "store",
       "config": {"encoding": "utf-8", "platform_newline": "\n", "buffer": 8192, "sector": 64, "trace": False,
                  "docs": [{"text": text, "blocks": []}], "formats": [{"indent": "\t", "value_column": 0, "trailing_comma": False, "block_separator": "\n\n"}]},
       "ops": [{"op": "seed", "path": "a.bib", "doc": 0, "writer": "foreign"},
               {"op": "load", "path": "a.bib", "stack": "none", "via": via}]}
res = store.execute(run, (prop,))
v = next((v for v in res.violations if v["property"] == prop), None)
if v is None:
    print("no violation"); sys.exit(1)
body = {"property": prop, "machine": "store", "verif_seed": None, "tier": "hand", "run_index": None,
        "config": run["config"], "ops": run["ops"], "violation": v, "digest": res.digest()}
json.dump(body, open(out, "w"), indent=1, sort_keys=True); open(out, "a").write("\n")
print(v["signature"], "|", v["message"])
