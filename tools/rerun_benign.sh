#!/bin/bash
# Re-run the filed property-preserving changes against the current checks (false-alarm regression).
# usage: tools/rerun_benign.sh [substring of the ids to run, e.g. r2]
cd "$(dirname "$0")/.."
declare -A REL=( [C01]="C01 C03 C04 C05" [C03]="C03 C04 C01 C05" [C05]="C05 C01 C03 C04 C07" [C07]="C07 C05 C20" [C08]="C08" [C18]="C18 C07" [C19]="C19 C08" [C20]="C20 C07 C05 C01" )
n=0; al=0
for d in benign/*/; do
  id=$(basename "$d"); prop=${id%%-*}
  case "$id" in *${1:-}*) ;; *) continue;; esac
  out=$(timeout 6000 tools/try_benign.py "$d" ${REL[$prop]} 2>&1)
  a=$(echo "$out" | python3 -c "import json,sys; d=json.load(sys.stdin); print(d['alarms'], {p:v['lines'][:1] for p,v in d['checks'].items() if v['exit']!=0})" 2>/dev/null || echo "TOOL-ERROR")
  echo "$id alarms: $a"
  n=$((n+1)); case "$a" in "[]"*) ;; *) al=$((al+1));; esac
done
echo "benign: $n re-run, $al with alarms"
