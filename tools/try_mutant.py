#!/venv/bin/python
"""Apply a one-off textual mutation to a scratch copy of /repo's package and run a check on it.

usage: try_mutant.py <prop> <relative file> <old> <new> [--runs N] [--tests]
The scratch copy lives under mktemp -d and is removed afterwards; /repo is never touched.
Exit code: that of the check (1 = caught).
"""
import os, shutil, subprocess, sys, tempfile

def main():
    a = sys.argv[1:]
    prop, rel, old, new = a[0], a[1], a[2], a[3]
    runs = a[a.index("--runs") + 1] if "--runs" in a else None
    tests = "--tests" in a
    d = tempfile.mkdtemp(prefix="mut_")
    try:
        shutil.copytree("/repo/bibtexparser", os.path.join(d, "bibtexparser"))
        if tests:
            shutil.copytree("/repo/tests", os.path.join(d, "tests"))
        p = os.path.join(d, rel)
        s = open(p).read()
        old = old.encode().decode("unicode_escape"); new = new.encode().decode("unicode_escape")
        if s.count(old) != 1:
            print(f"MUTANT-ERROR: pattern occurs {s.count(old)} times in {rel}"); return 9
        open(p, "w").write(s.replace(old, new))
        if tests:
            r = subprocess.run(["/venv/bin/python", "-m", "pytest", "-q", "-x", "-p", "no:cacheprovider", "tests"], cwd=d,
                               env=dict(os.environ, PYTHONPATH=d, PYTHONDONTWRITEBYTECODE="1"), capture_output=True, text=True)
            print("tests:", r.stdout.strip().splitlines()[-1] if r.stdout.strip() else r.stderr[-300:])
        env = dict(os.environ, VERIF_REPO=d, VERIF_REPLAY_DIR=os.path.join(d, "replays"))
        cmd = ["/verif/check", prop, "--no-evidence"] + (["--runs", runs] if runs else [])
        r = subprocess.run(cmd, env=env, capture_output=True, text=True)
        out = [l for l in r.stdout.splitlines() if l.startswith(("violation:", "VIOLATION", "HARNESS", prop))]
        print("\n".join(l[:300] for l in out[:6]))
        if r.returncode not in (0, 1): print(r.stderr[-800:])
        print("exit", r.returncode, "=> CAUGHT" if r.returncode == 1 else "=> MISSED" if r.returncode == 0 else "=> ERROR")
        return r.returncode
    finally:
        shutil.rmtree(d, ignore_errors=True)

sys.exit(main())
