#!/venv/bin/python
"""Run checks against a property-PRESERVING change (false-alarm test).

usage: try_benign.py <dir with patch.diff> <prop> [<prop> ...] [--keep <id>]

In a scratch git worktree of /repo: apply patch.diff, run the pinned suite, run each
listed check with VERIF_REPO=<worktree>.  Any exit 1 is an alarm to be explained:
either the change does break that property after all, or the check is wrong.
With --keep ID the change is filed as /verif/benign/ID/{patch.diff,notes.md,meta.json}.
"""
import json
import os
import shutil
import subprocess
import sys
import tempfile


def sh(cmd, **kw):
    return subprocess.run(cmd, capture_output=True, text=True, **kw)


def main():
    a = sys.argv[1:]
    keep = None
    if "--keep" in a:
        i = a.index("--keep")
        keep = a[i + 1]
        del a[i:i + 2]
    src, props = os.path.abspath(a[0]), a[1:]
    base = tempfile.mkdtemp(prefix="benign_")
    wt = os.path.join(base, "wt")
    out = {"source": src, "checks": {}}
    try:
        r = sh(["git", "-C", "/repo", "worktree", "add", "--detach", wt, "HEAD"])
        if r.returncode != 0:
            print("worktree failed", r.stderr)
            return 9
        r = sh(["git", "-C", wt, "apply", os.path.join(src, "patch.diff")])
        if r.returncode != 0:
            r = sh(["git", "-C", wt, "apply", "--3way", os.path.join(src, "patch.diff")])
        if r.returncode != 0:
            print("patch does not apply:", r.stderr)
            return 9
        env = dict(os.environ, PYTHONPATH=wt, PYTHONDONTWRITEBYTECODE="1")
        r = sh(["/venv/bin/python", "-m", "pytest", "-q", "-p", "no:cacheprovider", "-x"], env=env, cwd=wt, timeout=900)
        out["tests"] = (r.stdout.strip().splitlines() or ["?"])[-1]
        for p in props:
            env2 = dict(os.environ, VERIF_REPO=wt, VERIF_REPLAY_DIR=os.path.join(base, "replays"))
            r = sh(["/verif/check", p, "--no-evidence"], env=env2, timeout=7200)
            out["checks"][p] = {"exit": r.returncode,
                                "lines": [l[:500] for l in r.stdout.splitlines() if l.startswith("violation:")][:4],
                                "stderr": r.stderr[-400:] if r.returncode not in (0, 1) else ""}
        out["alarms"] = [p for p, v in out["checks"].items() if v["exit"] != 0]
        print(json.dumps(out, indent=1))
        if keep:
            dst = os.path.join("/verif/benign", keep)
            os.makedirs(dst, exist_ok=True)
            for f in ("patch.diff", "notes.md"):
                if os.path.exists(os.path.join(src, f)) and os.path.realpath(dst) != os.path.realpath(src):
                    shutil.copy(os.path.join(src, f), os.path.join(dst, f))
            json.dump({"origin": "independent sub-agent asked for a property-preserving change", "tests": out["tests"],
                       "checks_run": {p: v["exit"] for p, v in out["checks"].items()}, "alarms": out["alarms"],
                       "first_alarm_lines": {p: v["lines"][:2] for p, v in out["checks"].items() if v["exit"] != 0}},
                      open(os.path.join(dst, "meta.json"), "w"), indent=1)
        return 0
    finally:
        sh(["git", "-C", "/repo", "worktree", "remove", "--force", wt])
        shutil.rmtree(base, ignore_errors=True)


sys.exit(main())
