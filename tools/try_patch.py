#!/venv/bin/python
"""Confirm a seeded change and run a check against it.

usage: try_patch.py <prop> <dir with patch.diff + demo.py> [--runs N] [--keep <seeded id>] [--tier T] [--skip-tests]

In a scratch git worktree of /repo (under mktemp, removed afterwards):
  1. demo.py on the clean tree            -> must exit 0
  2. git apply patch.diff
  3. the pinned test suite                -> must pass
  4. demo.py                              -> must exit non-zero
  5. ./check <prop> with VERIF_REPO=<worktree>   -> reports CAUGHT (exit 1) or MISSED (exit 0)
With --keep ID the change is filed as /verif/seeded/ID/{patch.diff,demo.py,notes.md,meta.json}.
"""
import json
import os
import shutil
import subprocess
import sys
import tempfile
import time


def sh(cmd, **kw):
    return subprocess.run(cmd, capture_output=True, text=True, **kw)


def main():
    a = sys.argv[1:]
    prop, src = a[0], os.path.abspath(a[1])
    runs = a[a.index("--runs") + 1] if "--runs" in a else None
    keep = a[a.index("--keep") + 1] if "--keep" in a else None
    tier = a[a.index("--tier") + 1] if "--tier" in a else "quick"
    base = tempfile.mkdtemp(prefix="seeded_")
    wt = os.path.join(base, "wt")
    out = {"property": prop, "source": src}
    try:
        r = sh(["git", "-C", "/repo", "worktree", "add", "--detach", wt, "HEAD"])
        if r.returncode != 0:
            print("worktree failed", r.stderr)
            return 9
        env = dict(os.environ, PYTHONPATH=wt, PYTHONDONTWRITEBYTECODE="1")
        demo = os.path.join(src, "demo.py")
        text = open(demo).read()
        # demos written by sub-agents may hard-code their own worktree path
        for p in ("C01", "C03", "C04", "C05", "C07", "C08", "C18", "C19", "C20"):
            text = text.replace("/tmp/wt/" + p, wt).replace("/tmp/wt2/" + p, wt).replace("/tmp/wt3/" + p, wt)
        demo2 = os.path.join(base, "demo.py")
        open(demo2, "w").write(text)
        r = sh(["/venv/bin/python", demo2], env=env, cwd=wt, timeout=600)
        out["demo_clean_exit"] = r.returncode
        r = sh(["git", "-C", wt, "apply", os.path.join(src, "patch.diff")])
        if r.returncode != 0:
            # written against an earlier HEAD (before a later fix: commit touched nearby lines): try a 3-way merge
            r = sh(["git", "-C", wt, "apply", "--3way", os.path.join(src, "patch.diff")])
            out["applied_with_3way"] = r.returncode == 0
        if r.returncode != 0:
            print("patch does not apply:", r.stderr)
            return 9
        if "--skip-tests" not in a:
            r = sh(["/venv/bin/python", "-m", "pytest", "-q", "-p", "no:cacheprovider", "-x"], env=env, cwd=wt, timeout=900)
            out["tests"] = (r.stdout.strip().splitlines() or ["?"])[-1]
            out["tests_pass"] = r.returncode == 0
        r = sh(["/venv/bin/python", demo2], env=env, cwd=wt, timeout=600)
        out["demo_patched_exit"] = r.returncode
        out["demo_patched_tail"] = (r.stdout + r.stderr).strip()[-300:]
        env2 = dict(os.environ, VERIF_REPO=wt, VERIF_REPLAY_DIR=os.path.join(base, "replays"), VERIF_TIER=tier)
        t0 = time.time()
        cmd = ["/verif/check", prop, "--no-evidence", "--tier", tier] + (["--runs", runs] if runs else [])
        r = sh(cmd, env=env2, timeout=7200)
        out["check_cmd"] = " ".join(cmd[:1] + cmd[1:])
        out["check_exit"] = r.returncode
        out["check_wall_s"] = round(time.time() - t0, 1)
        out["check_lines"] = [l[:400] for l in r.stdout.splitlines() if l.startswith(("violation:", "KNOWN", prop + " "))][:6]
        if r.returncode not in (0, 1):
            out["check_stderr"] = r.stderr[-600:]
        out["verdict"] = {1: "CAUGHT", 0: "MISSED"}.get(r.returncode, "ERROR")
        valid = out["demo_clean_exit"] == 0 and out["demo_patched_exit"] != 0 and out.get("tests_pass", True)
        out["valid_seed"] = valid
        print(json.dumps(out, indent=1))
        if keep and valid:
            dst = os.path.join("/verif/seeded", keep)
            os.makedirs(dst, exist_ok=True)
            if os.path.realpath(dst) != os.path.realpath(src):
                for f in ("patch.diff", "notes.md"):
                    if os.path.exists(os.path.join(src, f)):
                        shutil.copy(os.path.join(src, f), os.path.join(dst, f))
                open(os.path.join(dst, "demo.py"), "w").write(open(demo).read())
            meta = {"breaks_property": prop, "origin": "independent sub-agent given only the property text and a scratch worktree",
                    "confirmed": {"demo_on_clean_tree_exit": out["demo_clean_exit"], "test_suite_with_patch": out.get("tests"),
                                  "demo_with_patch_exit": out["demo_patched_exit"]},
                    "check": {"cmd": out["check_cmd"], "verdict": out["verdict"], "wall_s": out["check_wall_s"], "first_lines": out["check_lines"][:3]}}
            nm = os.path.join(src, "notes.md")
            if os.path.exists(nm):
                meta["needs_to_manifest"] = open(nm).read()[:1500]
            try:
                prev = json.load(open(os.path.join(dst, "meta.json")))
                for k_ in ("disposition",):          # hand-written judgement survives a re-run
                    if k_ in prev:
                        meta[k_] = prev[k_]
            except Exception:
                pass
            json.dump(meta, open(os.path.join(dst, "meta.json"), "w"), indent=1)
        return 0
    finally:
        sh(["git", "-C", "/repo", "worktree", "remove", "--force", wt])
        shutil.rmtree(base, ignore_errors=True)


sys.exit(main())
