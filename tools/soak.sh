#!/bin/bash
# soak: every claimed check at many VERIF_SEEDs (soundness: must exit 0 on the unchanged tree)
# usage: tools/soak.sh <tier> <first seed> <last seed> [workers]
tier=${1:-quick}; a=${2:-1}; b=${3:-20}; w=${4:-8}
cd "$(dirname "$0")/.."
bad=0
for s in $(seq $a $b); do
  for p in C01 C03 C04 C05 C07 C08 C18 C19 C20; do
    out=$(VERIF_SEED=$s ./check $p --tier $tier --workers $w --no-evidence 2>&1); rc=$?
    echo "seed=$s $p rc=$rc $(echo "$out" | tail -1 | cut -c1-160)"
    if [ $rc -ne 0 ]; then bad=$((bad+1)); echo "$out" | grep -E "violation:|VIOLATION|HARNESS" | head -5; fi
  done
done
echo "soak done: $bad non-zero exits"
