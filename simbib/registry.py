"""Which machine decides which property, with budgets and evidence boilerplate."""

REAL_COMMON = [
    "bibtexparser (all modules, unmodified, imported from the working tree of VERIF_REPO)",
    "CPython copy.deepcopy, re, io.TextIOWrapper / BufferedReader / BufferedWriter",
]

CHECKS = {
    "C08": {
        "machine": "lib",
        "runs": {"quick": 60_000, "thorough": 4_000_000},
        "chunk": {"quick": 1500, "thorough": 10_000},
        "budget_s": {"quick": 75, "thorough": 900},
        "run_timeout": 20,
        "manifest": {
            "text": "Seeded search over histories of Library.add/remove/replace (incl. failing and partially failing calls) with a "
                    "reference model checked after every call: refinement of the ordered logical block list, view consistency, "
                    "atomicity of calls that raise ValueError. Sampling (10^5 histories quick, 10^6+ thorough), not enumeration: a clean batch is evidence, not proof.",
            "design_ref": "DESIGN.md section 3 / C08",
            "note": "Trusted: the reference model (simbib/machines/lib.py, ~40 lines of list logic) and the harness-side structural equality. "
                    "Assumes callers do not mutate keys of held blocks. Does not assert which same-key block is live (C09) nor when a call must raise.",
            "technique": "deterministic simulation: seeded operation histories vs reference model, step-wise invariants, ddmin replay",
        },
        "extra": {
            "rule": "each run = a pool of 5-15 blocks (entries over keys a,b,c x 2 types, strings over a,b, preamble, comments, "
                    "four failed-block classes, structural clones) and a history of 1-30 (thorough: -45) add/remove/replace calls "
                    "(single and list arguments, both fail_on_duplicate_key modes, targets by pool object / held position / inner block of a held wrapper), "
                    "generated from the run's PRNG and interpreted against the real Library and a reference model. "
                    "distinct = distinct event-log shape (op kind + outcome class per step); non-trivial = at least one call changed the library.",
            "state_measure": "distinct canonical library shapes ((class, key, live|dup) per block, entry-dict keys, string-dict keys) observed after a call",
            "expected_probes": ["replace_rollback", "failing_replace_with_dups_held", "replace_across_kinds",
                                "remove_by_equality_of_clone", "list_remove_raised", "add_raised_on_duplicate",
                                "same_object_added_twice", "add_key_after_removal"],
            "components": {"real": REAL_COMMON + ["bibtexparser.library.Library", "bibtexparser.model.*"],
                           "stub": ["the caller (a generated history); the reference model (ordered list of logical blocks)"]},
            "assumptions": [
                "the caller does not mutate a block's key while the library holds it",
                "which of two same-key blocks is the live one is not asserted here (C09, not claimed)",
                "when a call must raise is not asserted: outcomes are observed and the resulting state is judged",
                "remove/replace may act on the first structurally-equal held block or on the identical one; both are accepted",
            ],
        },
    },
}

CHECKS["C19"] = {
    "machine": "entry",
    "runs": {"quick": 150_000, "thorough": 6_000_000},
    "chunk": {"quick": 2500, "thorough": 20_000},
    "budget_s": {"quick": 75, "thorough": 900},
    "run_timeout": 20,
    "manifest": {
        "text": "Seeded search over histories of mapping operations (set_field, item assignment, pop, del, get, in, lookup, items, "
                "fields, fields_dict) on an entry and on a forked deep copy, with an insertion-ordered dict as reference model checked "
                "after every call, and with equality required to track model equality across fork / single-attribute perturbation / "
                "re-convergence for entries, strings, preambles, both comment classes and fields. Sampling, not enumeration.",
        "design_ref": "DESIGN.md section 3 / C19",
        "note": "Trusted: the dict-based reference model (simbib/machines/entry.py). `del e[k]` of an absent key may raise KeyError or return silently; "
                "items() may or may not carry the ENTRYTYPE/ID pairs; shallow copies are only compared at fork time (they share the field list by construction).",
        "technique": "deterministic simulation: seeded operation histories on two holders vs dict reference model, equality tracked per step",
    },
    "extra": {
        "rule": "each run = a subject (entry from constructor or parsed from text, or string/preamble/comment/field) and 1-30 (thorough: -60) ops drawn from "
                "mapping calls over the key pool {title, Title, TITLE, a, b, year}, fork (copy/deepcopy) and single-attribute perturbations on either holder; "
                "distinct = distinct event-log shape; non-trivial = at least one state-changing op.",
        "state_measure": "distinct (subject, field-key order of holder 0, holders-equal flag) triples",
        "expected_probes": ["replace_keeps_position", "new_key_appends", "pop_closes_gap", "pop_absent", "del_absent",
                            "case_variant_keys_coexist", "fork_copy", "fork_deepcopy", "diverged_then_reconverged",
                            "eq_true", "eq_false", "cross_class", "perturb_type", "perturb_key", "perturb_raw", "perturb_line",
                            "perturb_meta", "perturb_fkey", "perturb_fval", "perturb_fline"],
        "components": {"real": REAL_COMMON + ["bibtexparser.model.Entry/Field/String/Preamble/ExplicitComment/ImplicitComment", "copy.copy / copy.deepcopy"],
                       "stub": ["the caller (a generated history); the reference model (dict key -> Field, scalar attributes)"]},
        "assumptions": ["field keys distinct and not ENTRYTYPE/ID (precondition of the statement)",
                        "start_line/raw are perturbed by rebuilding through the public constructor with the same Field objects"],
    },
}

_PURE = ("pure function of its argument: no stream, no state kept between calls, no collaborator that can fail, no schedule or clock; "
         "the only thing a harness could vary is the input, which is input generation / bounded enumeration, not deterministic simulation (DESIGN.md section 1)")

NOT_APPLICABLE = {
    "C02": "ground-truth parsing of well-formed documents is a " + _PURE,
    "C06": "layout of write(library, format) is a " + _PURE + "; its one stateful clause (format object unchanged) is decided under C07",
    "C09": "duplicate-key flagging of a parsed document is a " + _PURE + "; its insertion-time mechanism is driven (not claimed) by the C08 machine",
    "C10": "enclosing removal/addition on one value is a " + _PURE,
    "C11": "@string resolution of a document is a " + _PURE,
    "C12": "co-author splitting of a string is a " + _PURE,
    "C13": "name-part splitting of a string is a " + _PURE,
    "C14": "the inverse law relates two pure functions; its stack clause follows from that law plus C20 (claimed); " + _PURE,
    "C15": "month conversion over a finite table is a " + _PURE,
    "C16": "block sorting is a " + _PURE + "; its 'input unchanged' clause is decided under C07",
    "C17": "field sorting / key normalisation is a " + _PURE + "; copy-mode non-mutation is decided under C07",
}

# claimed in DESIGN.md, check not built yet (listed under not_applicable until it is registered)
PENDING = {p: "claimed in DESIGN.md; simulated check under construction, not yet registered" for p in
           ("C01", "C03", "C04", "C05", "C07", "C18", "C19", "C20")}
for _p in list(PENDING):
    if _p in CHECKS:
        del PENDING[_p]
NOT_APPLICABLE.update(PENDING)
