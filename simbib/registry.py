"""Which machine decides which property, with budgets and evidence boilerplate."""

REAL_COMMON = [
    "bibtexparser (all modules, unmodified, imported from the working tree of VERIF_REPO)",
    "CPython copy.deepcopy, re, io.TextIOWrapper / BufferedReader / BufferedWriter",
]

CHECKS = {
    "C08": {
        "machine": "lib",
        "runs": {"quick": 45_000, "thorough": 4_000_000},
        "chunk": {"quick": 1000, "thorough": 2_000},
        "budget_s": {"quick": 75, "thorough": 900},
        "run_timeout": {"quick": 60, "thorough": 900},
        "manifest": {
            "text": "Seeded search over histories of Library.add/remove/replace (incl. failing and partially failing calls) with a "
                    "reference model checked after every call: refinement of the ordered logical block list, view consistency, "
                    "atomicity of calls that raise ValueError. Sampling (10^5 histories quick, 10^6+ thorough), not enumeration: a clean batch is evidence, not proof.",
            "design_ref": "DESIGN.md section 3 / C08",
            "note": "Trusted: the reference model (simbib/machines/lib.py, ~40 lines of list logic) and the harness-side structural equality. "
                    "Assumes callers do not mutate keys of held blocks. Does not assert which same-key block is live (C09) nor when a call must raise.",
            "technique": "deterministic simulation: seeded operation histories vs reference model, step-wise invariants, ddmin replay",
        },
        "extra": {
            "rule": "each run = a pool of 5-15 blocks (entries over keys a,b,c x 2 types, strings over a,b, preamble, comments, "
                    "four failed-block classes, structural clones) and a history of 1-30 (thorough: -45) add/remove/replace calls "
                    "(single and list arguments, both fail_on_duplicate_key modes, targets by pool object / held position / inner block of a held wrapper), "
                    "generated from the run's PRNG and interpreted against the real Library and a reference model. "
                    "distinct = distinct event-log shape (op kind + outcome class per step); non-trivial = at least one call changed the library.",
            "state_measure": "distinct canonical library shapes ((class, key, live|dup) per block, entry-dict keys, string-dict keys) observed after a call",
            "expected_probes": ["replace_rollback", "failing_replace_with_dups_held", "replace_across_kinds",
                                "remove_by_equality_of_clone", "list_remove_raised", "add_raised_on_duplicate",
                                "same_object_added_twice", "add_key_after_removal"],
            "components": {"real": REAL_COMMON + ["bibtexparser.library.Library", "bibtexparser.model.*"],
                           "stub": ["the caller (a generated history); the reference model (ordered list of logical blocks)"]},
            "assumptions": [
                "the caller does not mutate a block's key while the library holds it",
                "which of two same-key blocks is the live one is not asserted here (C09, not claimed)",
                "when a call must raise is not asserted: outcomes are observed and the resulting state is judged",
                "remove/replace may act on the first structurally-equal held block or on the identical one; both are accepted",
            ],
        },
    },
}

CHECKS["C19"] = {
    "machine": "entry",
    "runs": {"quick": 150_000, "thorough": 6_000_000},
    "chunk": {"quick": 2500, "thorough": 5_000},
    "budget_s": {"quick": 75, "thorough": 900},
    "run_timeout": {"quick": 60, "thorough": 900},
    "manifest": {
        "text": "Seeded search over histories of mapping operations (set_field, item assignment, pop, del, get, in, lookup, items, "
                "fields, fields_dict) on an entry and on a forked deep copy, with an insertion-ordered dict as reference model checked "
                "after every call, and with equality required to track model equality across fork / single-attribute perturbation / "
                "re-convergence for entries, strings, preambles, both comment classes and fields. Sampling, not enumeration.",
        "design_ref": "DESIGN.md section 3 / C19",
        "note": "Trusted: the dict-based reference model (simbib/machines/entry.py). `del e[k]` of an absent key may raise KeyError or return silently; "
                "items() may or may not carry the ENTRYTYPE/ID pairs; shallow copies are only compared at fork time (they share the field list by construction).",
        "technique": "deterministic simulation: seeded operation histories on two holders vs dict reference model, equality tracked per step",
    },
    "extra": {
        "rule": "each run = a subject (entry from constructor or parsed from text, or string/preamble/comment/field) and 1-30 (thorough: -60) ops drawn from "
                "mapping calls over the key pool {title, Title, TITLE, a, b, year}, fork (copy/deepcopy) and single-attribute perturbations on either holder; "
                "distinct = distinct event-log shape; non-trivial = at least one state-changing op.",
        "state_measure": "distinct (subject, field-key order of holder 0, holders-equal flag) triples",
        "expected_probes": ["replace_keeps_position", "new_key_appends", "pop_closes_gap", "pop_absent", "del_absent",
                            "case_variant_keys_coexist", "fork_copy", "fork_deepcopy", "diverged_then_reconverged",
                            "eq_true", "eq_false", "cross_class", "perturb_type", "perturb_key", "perturb_raw", "perturb_line",
                            "perturb_meta", "perturb_fkey", "perturb_fval", "perturb_fline"],
        "components": {"real": REAL_COMMON + ["bibtexparser.model.Entry/Field/String/Preamble/ExplicitComment/ImplicitComment", "copy.copy / copy.deepcopy"],
                       "stub": ["the caller (a generated history); the reference model (dict key -> Field, scalar attributes)"]},
        "assumptions": ["field keys distinct and not ENTRYTYPE/ID (precondition of the statement)",
                        "start_line/raw are perturbed by rebuilding through the public constructor with the same Field objects"],
    },
}

_STORE_COMPONENTS = {
    "real": REAL_COMMON + ["bibtexparser.splitter.Splitter", "parse_string / parse_file / write_string / write_file", "default parse and unparse stacks", "bibtexparser.writer"],
    "stub": ["disk: in-memory SimDisk + SimRaw raw device (simbib/simfs.py) under CPython's real TextIOWrapper/Buffered* layers",
             "foreign .bib-writing tool: simbib/docgen.py", "storage faults: simbib/faults.py", "builtins.open as seen by bibtexparser.entrypoint (module-global shadow)"],
}

CHECKS["C01"] = {
    "machine": "store",
    "runs": {"quick": 45_000, "thorough": 1_500_000},
    "chunk": {"quick": 500, "thorough": 500},
    "budget_s": {"quick": 80, "thorough": 900},
    "run_timeout": {"quick": 40, "thorough": 300},
    "manifest": {
        "text": "Partial. Decided for every text a faulty storage stack can hand the parser: valid files (foreign tool and the library's own writer) "
                "damaged by torn / lost / duplicated / misdirected writes, bit rot, interleaved writers, garbage inserts, plus a fault-free "
                "size swarm (blank-line runs, banners, long values, deep nesting, unterminated blocks, mark soup up to 10^5 lines in thorough). "
                "Oracle during the run: nothing escapes parse_file/parse_string/write_string nor the re-parse of the written text; every failed block "
                "carries error and raw; a deterministic line-event budget (sys.settrace) stands in for 'no hang'. NOT decided: the bounded-exhaustive "
                "token-sequence half of the quantifier (that is model checking).",
        "design_ref": "DESIGN.md section 3 / C01",
        "note": "Sampling. Undecodable bytes are decoded leniently by the simulated client so the parser always sees the damage. "
                "The step budget K*len+C is fixed (K=80, C=5000) and only applied on a sampled subset and on runs that hit the wall-clock watchdog.",
        "technique": "deterministic simulation: storage-fault injection on a simulated disk + size swarm, invariants checked during each run",
    },
    "extra": {
        "rule": "each run = one stored document (docgen foreign layout, library writer normal form, size-scaled family or mark soup), 0-3 storage faults, "
                "then load -> save -> load (-> fault -> load); distinct = distinct event-log shape incl. document/fault digests; non-trivial = a fault changed the bytes or a failed block appeared.",
        "state_measure": "distinct (block-class sequence prefix, set of abort-reason classes) per load",
        "expected_probes": ["abort:eof", "abort:unexpected-block-start", "abort:expected-equals",
                            "abort:expected-comma-after-key", "abort:expected-equals-after-string-key", "many_newlines",
                            "undecodable_bytes_lenient_client", "traced_calls", "crlf_seen_by_parser"],
        "components": _STORE_COMPONENTS,
        "assumptions": ["caller stack depth <= 25 frames at the interpreter's default recursion limit",
                        "MemoryError is out of scope (allocation failure cannot be injected deterministically from Python)"],
    },
}

CHECKS["C03"] = {
    "machine": "store",
    "runs": {"quick": 45_000, "thorough": 1_500_000},
    "chunk": {"quick": 500, "thorough": 500},
    "budget_s": {"quick": 80, "thorough": 900},
    "run_timeout": {"quick": 40, "thorough": 300},
    "manifest": {
        "text": "Partial. Same storage-fault and size-swarm runs as C01, judged by a conservation oracle over (text handed to parse_string, blocks): "
                "raws found left-to-right (greedy first occurrence is exact for this oracle), gaps whitespace-only, no overlap, nothing after the last raw; "
                "start_line == number of newlines before the raw; for undamaged docgen documents each field whose key and '=' share a line reports that line. "
                "NOT decided: bounded-exhaustive token sequences.",
        "design_ref": "DESIGN.md section 3 / C03",
        "note": "Sampling. Lines are counted as '\\n' characters (CRLF documents included; a lone CR is not a line break).",
        "technique": "deterministic simulation: storage-fault injection, conservation (tiling) oracle over the recorded parse",
    },
    "extra": {
        "rule": "as C01 (text handed to parse_string directly so CRLF survives); distinct = distinct event-log shape; non-trivial = a fault changed the bytes or a failed block appeared.",
        "state_measure": "distinct (block-class sequence prefix, set of abort-reason classes) per load",
        "expected_probes": ["abort:eof", "abort:unexpected-block-start", "abort:expected-equals",
                            "abort:expected-comma-after-key", "abort:expected-equals-after-string-key",
                            "crlf_seen_by_parser", "backslash_newline", "field_line_checked"],
        "components": _STORE_COMPONENTS,
        "assumptions": [],
    },
}

CHECKS["C04"] = {
    "machine": "store",
    "runs": {"quick": 150_000, "thorough": 1_500_000},
    "chunk": {"quick": 500, "thorough": 500},
    "budget_s": {"quick": 80, "thorough": 900},
    "run_timeout": {"quick": 90, "thorough": 900},
    "manifest": {
        "text": "A stored file D1 + M + D2 whose middle document M is damaged by 0-2 storage faults (or replaced by raw garbage) is split by the real Splitter and by "
                "parse_string(parse_stack=[]); differential oracle against the undamaged neighbours parsed on their own: the first len(parse(D1)) blocks and the last "
                "len(parse(D2)) blocks must have the same content and raw (prefix: same start lines too). The fault-free case is the concatenation corollary. Sampling.",
        "design_ref": "DESIGN.md section 3 / C04",
        "note": "D1 is cut to end with a '}'-closed @-block, D2 starts with an @-block at a line start (the statement's preconditions); duplicate-key wrappers are unwrapped on both sides "
                "(a key collision with something inside X is C09 semantics); suffix start lines are judged under C03 only.",
        "technique": "deterministic simulation: storage faults confined to a byte range, differential oracle vs undamaged neighbours",
    },
    "extra": {
        "rule": "each run = three docgen documents D1, M, D2 (+ one for interleaving), 0-2 faults applied to M's bytes or one of 8 raw garbage texts; "
                "distinct = distinct event-log shape incl. text digest; every run is non-trivial (it parses D1+X+D2).",
        "state_measure": "distinct (fault kinds, garbage id, abort-reason classes of the middle, middle-nonempty) tuples",
        "expected_probes": ["abort:unexpected-block-start", "abort:expected-equals", "abort:expected-comma-after-key", "abort:eof", "no_suffix_document",
                            "concatenation_of_valid_documents", "d2_starts_with_entry", "d2_starts_with_String", "d2_starts_with_Preamble",
                            "d2_starts_with_ExplicitComment", "x_ends_in_backslash"],
        "components": _STORE_COMPONENTS,
        "assumptions": ["compared at splitter level only: under the default stack a field in D2 may legitimately resolve against an @string in D1 (C11)"],
    },
}

CHECKS["C05"] = {
    "machine": "store",
    "runs": {"quick": 120_000, "thorough": 1_000_000},
    "chunk": {"quick": 500, "thorough": 500},
    "budget_s": {"quick": 80, "thorough": 900},
    "run_timeout": {"quick": 90, "thorough": 900},
    "manifest": {
        "text": "Weakest fit (DESIGN.md says so). Durability reading: seed file (foreign tool or library writer) -> parse_file -> write_file(format F) -> restart (memory dropped) -> "
                "parse_file -> content must equal what was saved; write_file again with F -> bytes identical; 1-4 cycles with the format, target path, encoding "
                "(utf-8, latin-1, utf-16, gbk) and simulated platform newline re-drawn; a longer pre-existing file is planted at the target in 30% of saves. Fault-free configuration only. Sampling.",
        "design_ref": "DESIGN.md section 3 / C05",
        "note": "Domain: documents whose first load yields no failed block (precondition misses are counted, never alarmed). The storage faults contribute nothing to this oracle.",
        "technique": "deterministic simulation: save/restart/load histories on a simulated disk, durability + fixpoint oracle",
    },
    "extra": {
        "rule": "each run = one docgen document, 1-4 save/restart/load/save-again cycles with per-cycle format; distinct = distinct event-log shape incl. byte digests; non-trivial = first load satisfied the precondition.",
        "state_measure": "distinct (block-class sequence prefix) per load",
        "expected_probes": ["reload_equal", "second_save_identical", "preexisting_longer_file", "crlf_file_loaded"],
        "components": _STORE_COMPONENTS,
        "assumptions": ["simulated locale == file encoding (write_file passes no encoding; a mismatch is C20's matter)"],
    },
}

CHECKS["C07"] = {
    "machine": "alias",
    "runs": {"quick": 20_000, "thorough": 800_000},
    "chunk": {"quick": 250, "thorough": 2_000},
    "budget_s": {"quick": 80, "thorough": 900},
    "run_timeout": {"quick": 90, "thorough": 900},
    "manifest": {
        "text": "Seeded search over histories of read-only operations (write_string / write_file to path and file object with formats incl. 'auto'; "
                "transform by one long-lived copy-mode instance of every shipped middleware class and option set, applied to parsed, damaged, "
                "name-split and previously transformed libraries, stacks up to depth 3, incl. calls that raise) over an arena of shared objects. "
                "After every op: every published library and format still has its creation-time deep fingerprint; the output object graph is disjoint "
                "from the input graph; re-writing the same (library, format) pair gives the same text. Sampling.",
        "design_ref": "DESIGN.md section 3 / C07",
        "note": "Trusted: the harness's deep fingerprint and mutable-object walk (simbib/fingerprint.py). Exception instances are not descended into "
                "(ParsingException.__deepcopy__ returns self by design; the statement lists blocks, fields, field lists, values and metadata). "
                "The middleware instance's own state is not required to stay unchanged.",
        "technique": "deterministic simulation: seeded operation histories over an arena of shared mutable objects, aliasing/mutation invariants after every step",
    },
    "extra": {
        "rule": "each run = 1-3 docgen documents (duplicates, name lists, month values; 35% damaged by a storage fault before parsing) parsed under one of 6 stacks, "
                "then 2-14 (thorough: -24) ops: write (3 targets, 4 formats) or transform by one of 27 long-lived copy-mode instances (30% fed their own latest output); "
                "distinct = distinct event-log shape; non-trivial = at least one write or transform executed.",
        "state_measure": "distinct (middleware chain, block classes present in the input, outcome class) triples",
        "expected_probes": ["instance_reapplied_to_own_output", "transform_raised", "write_with_auto_format", "same_pair_written_again",
                            "lib_with_duplicate_blocks", "lib_with_failed_blocks", "lib_with_middleware_error_blocks", "lib_with_list_values", "stack_depth_3"],
        "components": {"real": REAL_COMMON + ["every shipped middleware class", "write_string / write_file", "bibtexparser.writer", "pylatexenc (real)"],
                       "stub": ["disk for write_file(path): SimDisk", "foreign documents: simbib/docgen.py"]},
        "assumptions": ["exceptions escaping a transform (type-incompatible pairs) are ops like any other: only the arena invariants are judged"],
    },
}

CHECKS["C20"] = {
    "machine": "io",
    "runs": {"quick": 60_000, "thorough": 1_500_000},
    "chunk": {"quick": 500, "thorough": 500},
    "budget_s": {"quick": 80, "thorough": 900},
    "run_timeout": {"quick": 90, "thorough": 900},
    "manifest": {
        "text": "Seeded histories of entry-point calls against a simulated disk and probe middlewares: (a) parse_string / write_string with every argument "
                "pattern (given stack, addition, both -> ValueError, neither; list / tuple / one-shot iterator) of 0-3 order-sensitive probe and shipped "
                "middlewares vs the explicit composition (Splitter + fold, fold + writer), compared by deep fingerprint; (b) parse_file / write_file over "
                "CPython's real text and buffer layers on a raw device that injects short reads/writes, EINTR, EIO and ENOSPC, with encodings "
                "{utf-8, latin-1, gbk, utf-16}, CR / CRLF / LF files, a simulated locale and platform newline, path / text file object / recording file object "
                "targets and a pre-existing longer file: result == the string function on the decoded bytes, or the injected error escapes, never a silent partial result; "
                "(c) the block-middleware result protocol for every block class. Sampling.",
        "design_ref": "DESIGN.md section 3 / C20",
        "note": "The io layers are CPython's; what is decided is the wrapper code around them (modes, encoding, newline, argument mapping, with-scoping). "
                "'Decoded content' is accepted with or without universal-newline translation. A generator result of a block middleware may be spliced or rejected with TypeError; "
                "an empty non-list collection is kept out of the generated space.",
        "technique": "deterministic simulation: raw-device fault injection under the real io stack + probe middlewares, differential oracle vs explicit composition",
    },
    "extra": {
        "rule": "each run = simulated locale / platform newline / buffer size, 1-2 docgen documents, 2-8 ops among parse_string, write_string, put+parse_file, "
                "[plant+]write_file, block_mw, each with its own stack arguments and raw fault plan; distinct = distinct event-log shape incl. result digests; "
                "non-trivial = at least one call produced a compared result.",
        "state_measure": "distinct (call, argument pattern, stack classes | encoding, fault kinds fired, outcome class) tuples",
        "expected_probes": ["both_args_value_error", "multibyte_split_across_raw_reads", "eintr_inside_write", "short_write_retried", "enospc_write_propagated",
                            "eio_write_propagated", "eio_read_propagated", "decode_error_propagated", "locale_unencodable_propagated", "utf16_bom",
                            "preexisting_longer_file", "fileobj_recording_exact", "cr_or_crlf_file", "generator_result_rejected",
                            "caller_edited_its_copy_of_default_stacks", "failed_write_left_target_untouched",
                            "open_error_propagated_read", "open_error_propagated_write"]
                           + ["returns_" + k for k in ("none", "empty_list", "empty_tuple", "same", "new", "list2", "tuple3", "gen", "int", "obj", "str", "list_bad", "repeat2", "list_none")],
        "components": {"real": REAL_COMMON + ["parse_string / parse_file / write_string / write_file", "default stacks", "BlockMiddleware.transform", "shipped middlewares mixed into stacks"],
                       "stub": ["raw device + directory: SimRaw / SimDisk", "builtins.open as seen by bibtexparser.entrypoint", "locale / platform newline (simulated)",
                                "probe middlewares TagBlock / TagLib / DropComments / Protocol", "recording file object"]},
        "assumptions": ["write_file(parse_stack=, append_middleware=) are mapped to write_string(unparse_stack=, prepend_middleware=) as the signature documents"],
    },
}

CHECKS["C18"] = {
    "machine": "dep",
    "runs": {"quick": 60_000, "thorough": 1_000_000},
    "chunk": {"quick": 400, "thorough": 2_000},
    "budget_s": {"quick": 80, "thorough": 900},
    "run_timeout": {"quick": 90, "thorough": 900},
    "manifest": {
        "text": "Partial. The third-party converter is replaced through the encoder= / decoder= constructor seam by a wrapper that fails chosen calls with one of 21 "
                "exception kinds (real pylatexenc or a marker stub underneath); every text value is made unique so a failed call identifies its site "
                "(entry field, name part, @string). Decided per run: no exception escapes transform; an entry whose conversion failed becomes a middleware-error block holding "
                "the entry with the unconverted value; un-faulted text values are converted exactly once; everything but text values (keys, types, raw, start lines, metadata, "
                "ints, lists, other blocks) is fingerprint-identical; text values stay str; the converter is handed nothing but text values; copy mode leaves the input unchanged. "
                "Fault-free option sets (keep_math, enclose_urls, keep_braced_groups, keep_math_mode) run the real converter. NOT decided: decode(encode(t)) == t. Sampling.",
        "design_ref": "DESIGN.md section 3 / C18",
        "note": "For a failed @string conversion only 'no exception, value still a str' is demanded (the statement speaks of entries). A list of NameParts is not a text value for this middleware.",
        "technique": "deterministic simulation: fault injection at the dependency seam (failing converter calls), containment / scope / type invariants",
    },
    "extra": {
        "rule": "each run = one docgen document (name lists, @strings) parsed under default / names / no stack, 0-3 extra fields (NameParts, list, int, None), "
                "a middleware (encode|decode, marker|real|own converter, in-place or copy) and a fault plan (0-3 failing call indices x exception kind); "
                "distinct = distinct event-log shape incl. result digest; non-trivial = the transform ran.",
        "state_measure": "distinct (direction, converter, exception kind, fault sites, in-place flag, options) tuples",
        "expected_probes": ["fault_in_field", "fault_in_namepart", "fault_in_string", "planned_fault_beyond_last_call", "instance_reused_for_another_library"],
        "components": {"real": REAL_COMMON + ["LatexEncodingMiddleware / LatexDecodingMiddleware", "BlockMiddleware.transform", "pylatexenc (inner=real, inner=own)"],
                       "stub": ["FaultyConverter (fails planned calls)", "Marker converter (wraps once)"]},
        "assumptions": ["a converter that returns a non-str is out of scope"],
    },
}

_PURE = ("pure function of its argument: no stream, no state kept between calls, no collaborator that can fail, no schedule or clock; "
         "the only thing a harness could vary is the input, which is input generation / bounded enumeration, not deterministic simulation (DESIGN.md section 1)")

NOT_APPLICABLE = {
    "C02": "ground-truth parsing of well-formed documents is a " + _PURE,
    "C06": "layout of write(library, format) is a " + _PURE + "; its one stateful clause (format object unchanged) is decided under C07",
    "C09": "duplicate-key flagging of a parsed document is a " + _PURE + "; its insertion-time mechanism is driven (not claimed) by the C08 machine",
    "C10": "enclosing removal/addition on one value is a " + _PURE,
    "C11": "@string resolution of a document is a " + _PURE,
    "C12": "co-author splitting of a string is a " + _PURE,
    "C13": "name-part splitting of a string is a " + _PURE,
    "C14": "the inverse law relates two pure functions; its stack clause follows from that law plus C20 (claimed); " + _PURE,
    "C15": "month conversion over a finite table is a " + _PURE,
    "C16": "block sorting is a " + _PURE + "; its 'input unchanged' clause is decided under C07",
    "C17": "field sorting / key normalisation is a " + _PURE + "; copy-mode non-mutation is decided under C07",
}

# claimed in DESIGN.md, check not built yet (listed under not_applicable until it is registered)
PENDING = {p: "claimed in DESIGN.md; simulated check under construction, not yet registered" for p in
           ("C01", "C03", "C04", "C05", "C07", "C18", "C19", "C20")}
for _p in list(PENDING):
    if _p in CHECKS:
        del PENDING[_p]
NOT_APPLICABLE.update(PENDING)
