"""Evidence files: /verif/evidence/<id>.json, rewritten on every run of a check."""
import json
import os

from .engine import EVIDENCE_DIR


def write(summary, extra):
    tot = summary["tot"]
    wall = max(summary["wall_s"], 1e-6)
    prop = summary["prop"]
    cov = {
        "evaluations": tot["runs"],
        "distinct_nontrivial": len(tot["nontrivial_shapes"]),
        "rule": extra.get("rule", ""),
        "samples": tot["samples"] or [{"note": "no non-trivial run in this batch"}],
        "exhaustive": False,
        "ops_executed": tot["nops"],
        "sim_time": {"logical_steps": tot["sim_steps"],
                     "note": "the system has no clock, timer or scheduler; simulated time is the count of real API calls made by the simulated client"},
        "runs_per_hour": int(tot["runs"] / wall * 3600),
        "seeds": {"verif_seed": summary["seed"], "first_run_index": 0, "last_run_index": summary["last_index"],
                  "derivation": "sha256(VERIF_SEED:machine:property:tier:run_index)[:8] seeds the run's only PRNG"},
        "requested_runs": summary["requested_runs"],
        "wall_budget_reached": summary["truncated"],
        "workers": summary["workers"],
        "distinct_histories": len(tot["shapes"]),
        "distinct_states": len(tot["states"]),
        "state_measure": extra.get("state_measure", ""),
        "interleavings": "not applicable: single-threaded system, no scheduler (DESIGN.md section 1); distinct abstract states and distinct histories are reported instead",
        "faults_injected": dict(sorted(tot["faults"].items())),
        "faults_effective": dict(sorted(tot["faults_eff"].items())),
        "probes": dict(sorted(tot["probes"].items())),
        "probes_never_hit": [p for p in extra.get("expected_probes", []) if tot["probes"].get(p, 0) == 0],
        "precondition_miss": tot["precondition_miss"],
        "ops_skipped_unresolvable": tot["skipped"],
        "components": extra.get("components", {}),
        "known_findings_hit": summary["known_hit"],
        "violating_runs_by_signature": dict(sorted(tot["viol_count"].items())),
        "new_violations": summary["new_violations"],
        "aggregate_event_log_digest": summary["digest"],
        "harness_errors": summary["harness_errors"],
        "machine": summary["machine"],
        "distinct_counts_are_lower_bounds_for": summary.get("saturated", []),
    }
    body = {
        "property_id": prop,
        "tier": summary["tier"],
        "seed": summary["seed"],
        "level": "exploration",
        "coverage": cov,
        "assumptions": extra.get("assumptions", []),
        "wall_s": round(summary["wall_s"], 3),
        "violations": len(summary["new_violations"]),
    }
    os.makedirs(EVIDENCE_DIR, exist_ok=True)
    path = os.path.join(EVIDENCE_DIR, f"{prop}.json")
    tmp = path + ".tmp"
    with open(tmp, "w") as f:
        json.dump(body, f, indent=1, ensure_ascii=True, default=str)
        f.write("\n")
    os.replace(tmp, path)
    # a second copy per tier, so that a later quick run does not erase what the last thorough run covered
    with open(os.path.join(EVIDENCE_DIR, f"{prop}.{summary['tier']}.json"), "w") as f:
        json.dump(body, f, indent=1, ensure_ascii=True, default=str)
        f.write("\n")
    return path
