"""Import the code under test from the *current working tree* of the repository.

VERIF_REPO (default /repo) is put first on sys.path and the imported package is
asserted to live under it, so a check can never silently test an installed copy.
"""
import logging
import os
import sys
import warnings

REPO = os.path.realpath(os.environ.get("VERIF_REPO", "/repo"))

if REPO not in sys.path[:1]:
    sys.path.insert(0, REPO)

# never write .pyc files into the repository under test
sys.dont_write_bytecode = True

import bibtexparser  # noqa: E402

_where = os.path.realpath(bibtexparser.__file__)
if not _where.startswith(REPO + os.sep):
    raise RuntimeError(f"bibtexparser imported from {_where}, expected under {REPO}")

# The library logs a warning per failed block and warns on some stack
# combinations; both are noise for a simulator that provokes them on purpose.
logging.getLogger("bibtexparser").setLevel(logging.CRITICAL)
logging.getLogger("bibtexparser").propagate = False
logging.getLogger("pylatexenc").setLevel(logging.CRITICAL)
logging.disable(logging.CRITICAL)
warnings.simplefilter("ignore")

from bibtexparser import entrypoint, library, model, splitter, writer  # noqa: E402,F401
from bibtexparser import exceptions as bexc  # noqa: E402,F401
from bibtexparser import middlewares as mws  # noqa: E402,F401
from bibtexparser.middlewares import middleware as mwbase  # noqa: E402,F401
from bibtexparser.middlewares import names as mwnames  # noqa: E402,F401
