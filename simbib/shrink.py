"""Minimiser: ddmin over the op+fault list, then machine-specific argument
simplification.  A candidate is accepted only if the *same signature* recurs at
the oracle; the step may move (ops were deleted)."""
import copy
import time

from .engine import _guarded_execute, first_violation


def _try(mach, run, prop, sig):
    res, err = _guarded_execute(mach, run, (prop,), getattr(mach, "SHRINK_TIMEOUT", 10))
    if err is not None or res is None:
        return None
    v = first_violation(res, prop, sig)
    if v is None:
        return None
    return v, res.digest()


def minimise(mach, run, prop, violation, budget_s=25.0):
    t_end = time.time() + budget_s
    sig = violation["signature"]
    best = copy.deepcopy(run)
    got = _try(mach, best, prop, sig)
    if got is None:
        return run, violation, None
    best_v, best_d = got

    # ops at or after the violating step can never matter
    keep_first = getattr(mach, "KEEP_FIRST_OP", False)

    def attempt(ops):
        nonlocal best, best_v, best_d
        cand = dict(best)
        cand["ops"] = ops
        got = _try(mach, cand, prop, sig)
        if got is None:
            return False
        best = cand
        best_v, best_d = got
        return True

    ops = best["ops"]
    cut = best_v["step"] + 1
    if cut < len(ops):
        attempt(ops[:cut])

    # ddmin
    n = 2
    while time.time() < t_end:
        ops = best["ops"]
        lo = 1 if keep_first else 0
        body = ops[lo:]
        if len(body) <= 1:
            break
        n = min(n, len(body))
        size = max(1, len(body) // n)
        reduced = False
        for i in range(0, len(body), size):
            cand = ops[:lo] + body[:i] + body[i + size:]
            if len(cand) < len(ops) and attempt(cand):
                reduced = True
                n = max(n - 1, 2)
                break
            if time.time() > t_end:
                break
        if not reduced:
            if size == 1:
                break
            n = min(len(body), n * 2)

    # single-op deletion pass
    i = len(best["ops"]) - 1
    while i >= (1 if keep_first else 0) and time.time() < t_end:
        ops = best["ops"]
        if i < len(ops):
            attempt(ops[:i] + ops[i + 1:])
        i -= 1

    # machine-specific simplifications (arguments, documents, config)
    simp = getattr(mach, "simplifications", None)
    if simp is not None:
        progress = True
        while progress and time.time() < t_end:
            progress = False
            for cand in simp(copy.deepcopy(best)):
                if time.time() > t_end:
                    break
                got = _try(mach, cand, prop, sig)
                if got is not None:
                    best = cand
                    best_v, best_d = got
                    progress = True
                    break
    return best, best_v, best_d
