"""simbib: deterministic simulation with fault injection for python-bibtexparser.

See /verif/DESIGN.md.  Everything random in a run is drawn from one
``random.Random`` seeded from VERIF_SEED; a run is then a JSON-able list of
operation and fault descriptors that is *interpreted* (never re-drawn) by both
the search loop and the replayer.
"""
