"""Storage faults applied to a stored file between API calls (DESIGN.md 2.3).

A fault descriptor is data (no PRNG at apply time):
  {"kind": K, "at": a, "len": l, ...}   with a, l fractions in [0,1) of the
  target region, resolved against the actual bytes at execution time and
  optionally aligned to the simulated sector size.

apply(data, fault, sector, prev=b"", other=b"") -> (new_data, (i, j))
  (i, j) is the damaged byte range in new_data.
"""

MARK_BYTES = [b"{", b"}", b'"', b",", b"=", b"@", b"\\", b"\n", b" ", b"#", b"\x00", b"\xff", b"a", b"@a{", b"}\n", b"\r"]

KINDS = ["torn_write", "lost_write", "dup_write", "misdirected_write", "bit_rot", "interleaved_writers",
         "crlf_rewrite", "bom", "garbage_insert"]
BENIGN = ("crlf_rewrite", "bom")


def draw(rng, kinds=None):
    kind = rng.choice(kinds or KINDS)
    f = {"kind": kind, "at": round(rng.random(), 4), "len": round(rng.random() * rng.choice([0.02, 0.1, 0.4]), 4),
         "align": rng.random() < 0.4}
    if kind == "torn_write":
        f["fill"] = rng.choice(["cut", "cut", "zero_sector", "old", "empty"])
    elif kind == "lost_write":
        f["fill"] = rng.choice(["zero", "old", "drop"])
    elif kind == "bit_rot":
        f["n"] = rng.randint(1, 3)
        f["bytes"] = [rng.randrange(len(MARK_BYTES)) for _ in range(3)]
        f["ats"] = [round(rng.random(), 4) for _ in range(3)]
    elif kind == "misdirected_write":
        f["src"] = round(rng.random(), 4)
    elif kind == "garbage_insert":
        f["bytes"] = [rng.randrange(len(MARK_BYTES)) for _ in range(rng.randint(1, 12))]
    elif kind == "interleaved_writers":
        f["chunk"] = rng.choice([1, 2, 4])
    return f


def _range(n, f, sector):
    if n == 0:
        return 0, 0
    i = min(n - 1, int(f["at"] * n))
    ln = max(1, int(f["len"] * n))
    if f.get("align") and sector > 1:
        i -= i % sector
        ln = max(sector, ln - ln % sector)
    j = min(n, i + ln)
    return i, j


def apply(data, f, sector=64, prev=b"", other=b""):
    data = bytes(data)
    n = len(data)
    k = f["kind"]
    if k == "torn_write":
        i, _ = _range(n, f, sector)
        fill = f.get("fill", "cut")
        if fill == "empty":
            return b"", (0, 0)
        if fill == "old":
            # crash before the new bytes reached the device at all, or: old tail survives beyond the cut
            new = data[:i] + prev[i:]
            return new, (i, len(new))
        if fill == "zero_sector":
            z = sector - (i % sector) if sector > 1 else 1
            new = data[:i] + b"\0" * z
            return new, (i, len(new))
        return data[:i], (i, i)
    if k == "lost_write":
        i, j = _range(n, f, sector)
        fill = f.get("fill", "zero")
        if fill == "zero":
            return data[:i] + b"\0" * (j - i) + data[j:], (i, j)
        if fill == "old":
            seg = (prev[i:j] + b" " * (j - i))[: j - i]
            return data[:i] + seg + data[j:], (i, j)
        return data[:i] + data[j:], (i, i)
    if k == "dup_write":
        i, j = _range(n, f, sector)
        return data[:j] + data[i:j] + data[j:], (j, j + (j - i))
    if k == "misdirected_write":
        i, j = _range(n, f, sector)
        s = min(max(0, n - (j - i)), int(f.get("src", 0) * n))
        seg = data[s:s + (j - i)]
        return data[:i] + seg + data[i + len(seg):], (i, i + len(seg))
    if k == "bit_rot":
        out = bytearray(data)
        lo, hi = n, 0
        for t in range(f.get("n", 1)):
            if n == 0:
                break
            p = min(n - 1, int(f["ats"][t] * n))
            b = MARK_BYTES[f["bytes"][t] % len(MARK_BYTES)][:1]
            out[p:p + 1] = b
            lo, hi = min(lo, p), max(hi, p + 1)
        return bytes(out), (min(lo, hi), hi)
    if k == "garbage_insert":
        i, _ = _range(n, f, sector)
        g = b"".join(MARK_BYTES[x % len(MARK_BYTES)] for x in f["bytes"])
        return data[:i] + g + data[i:], (i, i + len(g))
    if k == "interleaved_writers":
        i, j = _range(n, f, sector)
        c = max(1, f.get("chunk", 1)) * (sector if f.get("align") else 7)
        a, b = data[i:j], other[: (j - i)]
        mixed = b"".join(a[t:t + c] + b[t:t + c] for t in range(0, max(len(a), len(b)), c))
        return data[:i] + mixed + data[j:], (i, i + len(mixed))
    if k == "crlf_rewrite":
        new = data.replace(b"\r\n", b"\n").replace(b"\n", b"\r\n")
        return new, (0, 0)
    if k == "bom":
        return b"\xef\xbb\xbf" + data, (0, 3)
    raise ValueError(k)
