"""Deep canonical forms of object graphs, independent of the code's own __eq__.

fingerprint(obj)  -> nested tuples / strings; equal iff the graphs are equal in
                     value *and* in internal sharing topology.
digest(obj)       -> short hex of the fingerprint.
mutable_ids(obj)  -> {id: path} of every reachable mutable container / model object.
"""
import dataclasses
import hashlib

_ATOM = (str, int, float, bool, type(None), bytes, complex)


def _is_atom(o):
    return isinstance(o, _ATOM)


def attrs(o):
    """Instance attributes of o in a stable order: __dict__ (insertion order) plus every slot of every class in
    its MRO (a slotted hierarchy has no __dict__, and __slots__ of one class lists only that class's own slots).
    Returns None for objects with neither."""
    d = getattr(o, "__dict__", None)
    out = dict(d) if isinstance(d, dict) else {}
    found = d is not None
    for cls in reversed(type(o).__mro__):
        sl = cls.__dict__.get("__slots__")
        if sl is None:
            continue
        found = True
        for name in ((sl,) if isinstance(sl, str) else sl):
            if name in ("__dict__", "__weakref__") or name in out:
                continue
            try:
                out[name] = object.__getattribute__(o, name)
            except AttributeError:
                pass
    return out if found else None


def fingerprint(obj, topology=True):
    memo = {}
    keep = []  # keep temporaries alive so ids are not recycled during the walk

    def walk(o, depth=0):
        if _is_atom(o):
            return (type(o).__name__, o)
        if isinstance(o, type):
            return ("class", o.__module__, o.__qualname__)
        if depth > 200:
            return ("too-deep",)
        oid = id(o)
        if oid in memo:
            return ("ref", memo[oid]) if topology else ("ref",)
        if isinstance(o, tuple):
            return ("tuple",) + tuple(walk(x, depth + 1) for x in o)
        if isinstance(o, frozenset):
            return ("frozenset",) + tuple(sorted(repr(walk(x, depth + 1)) for x in o))
        memo[oid] = len(memo)
        keep.append(o)
        if isinstance(o, list):
            return ("list",) + tuple(walk(x, depth + 1) for x in o)
        if isinstance(o, dict):
            return (type(o).__name__,) + tuple(
                (walk(k, depth + 1), walk(v, depth + 1)) for k, v in o.items()
            )
        if isinstance(o, set):
            return ("set",) + tuple(sorted(repr(walk(x, depth + 1)) for x in o))
        if isinstance(o, BaseException):
            d = getattr(o, "__dict__", {})
            return (
                "exc",
                type(o).__qualname__,
                walk(tuple(o.args), depth + 1),
                tuple((k, walk(v, depth + 1)) for k, v in d.items()),
            )
        if callable(o) and not hasattr(o, "__dict__"):
            return ("callable", getattr(o, "__qualname__", repr(type(o))))
        d = attrs(o)
        if d is not None:
            return (
                "obj",
                type(o).__module__ + "." + type(o).__qualname__,
                tuple((k, walk(v, depth + 1)) for k, v in d.items()),
            )
        return ("opaque", type(o).__qualname__)

    return walk(obj)


def digest(obj, topology=True, n=16):
    return hashlib.sha256(repr(fingerprint(obj, topology)).encode("utf-8", "surrogatepass")).hexdigest()[:n]


def hexdigest_of(text, n=16):
    if isinstance(text, str):
        text = text.encode("utf-8", "surrogatepass")
    return hashlib.sha256(text).hexdigest()[:n]


def mutable_ids(obj, skip_exceptions=True):
    """ids of every reachable mutable object (list, dict, set, instance with
    __dict__), with a path for reporting.  Exceptions are not descended into
    (ParsingException.__deepcopy__ returns self by design)."""
    out = {}
    keep = []

    def walk(o, path, depth=0):
        if _is_atom(o) or isinstance(o, type) or depth > 200:
            return
        if skip_exceptions and isinstance(o, BaseException):
            return
        if isinstance(o, (tuple, frozenset)):
            for i, x in enumerate(o):
                walk(x, f"{path}[{i}]", depth + 1)
            return
        oid = id(o)
        if oid in out:
            return
        if isinstance(o, list):
            out[oid] = path
            keep.append(o)
            for i, x in enumerate(o):
                walk(x, f"{path}[{i}]", depth + 1)
            return
        if isinstance(o, dict):
            out[oid] = path
            keep.append(o)
            for k, v in o.items():
                walk(k, f"{path}<key {k!r}>", depth + 1)
                walk(v, f"{path}[{k!r}]", depth + 1)
            return
        if isinstance(o, set):
            out[oid] = path
            keep.append(o)
            for x in sorted(o, key=repr):
                walk(x, f"{path}{{{x!r}}}", depth + 1)
            return
        if callable(o) and not dataclasses.is_dataclass(o) and attrs(o) is None:
            return
        d = attrs(o)
        if d is not None:
            if callable(o) and not dataclasses.is_dataclass(o):
                return  # functions / bound methods
            out[oid] = path
            keep.append(o)
            for k, v in d.items():
                walk(v, f"{path}.{k}", depth + 1)
            # what the object hands out through its public attributes counts as well (a reference kept behind a
            # weak reference or a lazily resolved handle is still a reference the caller can reach and mutate)
            for cls, names in _public_table():
                if isinstance(o, cls):
                    for n in names:
                        try:
                            v = getattr(o, n)
                        except Exception:  # noqa
                            continue
                        walk(v, f"{path}.{n}", depth + 1)
                    break

    walk(obj, type(obj).__name__)
    out["__keep__"] = keep  # keeps the walked objects alive as long as the result
    return out


def shared_mutables(a, b):
    """Paths of mutable objects reachable from both a and b."""
    ia = mutable_ids(a)
    ib = mutable_ids(b)
    ia.pop("__keep__")
    ib.pop("__keep__")
    return [(ia[i], ib[i]) for i in ia if i in ib]


# ---------------------------------------------------------------------------------------------
# Observable (public-API) fingerprint of the library's own objects.
#
# "Unchanged" and "equal" in the properties are about what a caller can observe, not about private
# attributes: a legitimately added private cache (memoised views, a key index, __slots__) must not look
# like a mutation.  Libraries, blocks, fields and formats are therefore described through their public
# attributes; anything else (values, metadata contents, NameParts, ...) falls back to the structural walk.

_PUBLIC = None


def _public_table():
    global _PUBLIC
    if _PUBLIC is None:
        from .repo import library as L, model as M, writer as W
        _PUBLIC = [
            # most specific first
            (M.DuplicateBlockKeyBlock, ("start_line", "raw", "parser_metadata", "error", "key", "previous_block", "ignore_error_block")),
            (M.DuplicateFieldKeyBlock, ("start_line", "raw", "parser_metadata", "error", "duplicate_keys", "ignore_error_block")),
            (M.ParsingFailedBlock, ("start_line", "raw", "parser_metadata", "error", "ignore_error_block")),
            (M.Entry, ("start_line", "raw", "parser_metadata", "entry_type", "key", "fields")),
            (M.String, ("start_line", "raw", "parser_metadata", "key", "value")),
            (M.Preamble, ("start_line", "raw", "parser_metadata", "value")),
            (M.ExplicitComment, ("start_line", "raw", "parser_metadata", "comment")),
            (M.ImplicitComment, ("start_line", "raw", "parser_metadata", "comment")),
            (M.Field, ("key", "value", "start_line")),
            (W.BibtexFormat, ("indent", "value_column", "block_separator", "trailing_comma", "parsing_failed_comment")),
            (L.Library, ("blocks",)),
        ]
    return _PUBLIC


def public_fingerprint(obj):
    table = _public_table()
    memo = {}
    keep = []

    def walk(o, depth=0):
        if _is_atom(o):
            return (type(o).__name__, o)
        if isinstance(o, type):
            return ("class", o.__module__, o.__qualname__)
        if depth > 200:
            return ("too-deep",)
        if isinstance(o, tuple):
            return ("tuple",) + tuple(walk(x, depth + 1) for x in o)
        if isinstance(o, frozenset):
            return ("frozenset",) + tuple(sorted(repr(walk(x, depth + 1)) for x in o))
        oid = id(o)
        if oid in memo:
            return ("ref", memo[oid])
        memo[oid] = len(memo)
        keep.append(o)
        if isinstance(o, list):
            return ("list",) + tuple(walk(x, depth + 1) for x in o)
        if isinstance(o, dict) or type(o).__name__ == "mappingproxy":
            return ("dict",) + tuple((walk(k, depth + 1), walk(v, depth + 1)) for k, v in o.items())
        if isinstance(o, set):
            return ("set",) + tuple(sorted(repr(walk(x, depth + 1)) for x in o))
        if isinstance(o, BaseException):
            pub = {k: v for k, v in (attrs(o) or {}).items() if not k.startswith("_")}
            return ("exc", type(o).__qualname__, walk(tuple(o.args), depth + 1),
                    tuple((k, walk(v, depth + 1)) for k, v in pub.items()))
        for cls, names in table:
            if isinstance(o, cls):
                out = [("cls", type(o).__module__ + "." + type(o).__qualname__)]
                for n in names:
                    try:
                        v = getattr(o, n)
                    except Exception as e:  # noqa
                        v = ("unreadable", type(e).__name__)
                    if n == "blocks":
                        v = list(v)          # a view may be a tuple / live sequence: the sequence of blocks is what counts
                        out.append((n, ("list",) + tuple(walk(x, depth + 1) for x in v)))
                        try:
                            out.append(("entry_keys", tuple(sorted(map(str, o.entries_dict)))))
                            out.append(("string_keys", tuple(sorted(map(str, o.strings_dict)))))
                        except Exception:  # noqa
                            pass
                        continue
                    out.append((n, walk(v, depth + 1)))
                return tuple(out)
        if callable(o) and attrs(o) is None:
            return ("callable", getattr(o, "__qualname__", repr(type(o))))
        d = attrs(o)
        if d is not None:
            return ("obj", type(o).__module__ + "." + type(o).__qualname__,
                    tuple((k, walk(v, depth + 1)) for k, v in d.items()))
        return ("opaque", type(o).__qualname__)

    return walk(obj)


def public_digest(obj, n=16):
    return hashlib.sha256(repr(public_fingerprint(obj)).encode("utf-8", "surrogatepass")).hexdigest()[:n]
