"""./check <id> [--tier quick|thorough] [--replay FILE] [--runs N] [--budget S]
   ./check selftest [...]
"""
import argparse
import os
import sys


def _rt(spec, tier):
    rt = spec["run_timeout"]
    return rt[tier] if isinstance(rt, dict) else rt


def main(argv=None):
    argv = sys.argv[1:] if argv is None else argv
    if argv and argv[0] == "selftest":
        from .selftest import main as st
        return st.main(argv[1:])
    ap = argparse.ArgumentParser(prog="check")
    ap.add_argument("target")
    ap.add_argument("--tier", default=os.environ.get("VERIF_TIER", "quick"), choices=["quick", "thorough"])
    ap.add_argument("--replay")
    ap.add_argument("--runs", type=int)
    ap.add_argument("--budget", type=float)
    ap.add_argument("--workers", type=int)
    ap.add_argument("--no-evidence", action="store_true")
    ap.add_argument("rest", nargs="*")
    args = ap.parse_args(argv)

    from . import engine, registry
    from . import repo  # noqa: F401  (asserts the tree under test)

    prop = args.target
    if prop not in registry.CHECKS:
        print(f"HARNESS-ERROR unknown property {prop}; claimed: {sorted(registry.CHECKS)}", file=sys.stderr)
        return engine.EXIT_HARNESS
    spec = registry.CHECKS[prop]
    if args.replay:
        return engine.replay(prop, args.replay)
    try:
        seed = int(os.environ.get("VERIF_SEED", "0"))
    except ValueError:
        seed = 0
    tier = args.tier
    runs = args.runs or spec["runs"][tier]
    budget = args.budget or float(os.environ.get("VERIF_BUDGET_S", "0") or 0) or spec["budget_s"][tier]
    code, _ = engine.run_check(
        prop, spec["machine"], tier, seed, runs, spec["chunk"][tier], budget,
        _rt(spec, tier), spec["extra"], workers=args.workers,
        write_evidence=not args.no_evidence,
    )
    return code


if __name__ == "__main__":
    sys.exit(main())
