"""M-ENTRY (C19): histories of mapping operations on an entry and on a forked
deep copy, against an insertion-ordered dict; equality must track model
equality across fork / diverge / re-converge.  Also String, Preamble, comments
and Field as subjects of the fork / perturb / equality ops.
"""
import copy

from ..engine import RunResult
from ..fingerprint import digest
from ..repo import entrypoint as EP
from ..repo import model as M

NAME = "entry"
PROPS = ("C19",)

KEYS = ["title", "Title", "a", "b", "year", "TITLE", " a", "a\u00a0", "b\x85", "year ", "id", "Id", "entrytype"]   # distinct keys, some only by surrounding white space
VALS = ["x", "y", "{Braced}", "", 3, ["l", "m"], "x"]
TYPES = ["article", "book"]
BKEYS = ["k1", "k2", "K1"]
RAWS = ["r1", "r2", None]
LINES = [0, 1, None, 7]
SUBJECTS = ["entry", "entry", "entry", "entry", "string", "preamble", "xcomment", "icomment", "field"]

SOURCES = [
    "@article{k1,\n title = {T},\n year = 1999\n}",
    "@book{k2, a = {x}, b = \"y\", Title = {Z}, title = q}",
    "@article{k1}",
    "@misc{K1, year = 2000,}",
]


def generate(rng, tier, prop):
    subject = rng.choice(SUBJECTS)
    cfg = {"subject": subject}
    if subject == "entry":
        if rng.random() < 0.45:
            cfg["source"] = rng.choice(SOURCES)
            # "starting from arbitrary parsed entries": parsed under which stack is arbitrary too (middleware metadata)
            cfg["source_stack"] = rng.choice(["none", "default", "default", "sort_alpha", "sort_custom", "normkeys", "month"])
        else:
            ks = rng.sample(KEYS, rng.randint(0, 4))
            cfg["init"] = {"type": rng.choice(TYPES), "key": rng.choice(BKEYS),
                           "fields": [[k, rng.choice(VALS), rng.choice(LINES)] for k in ks],
                           "line": rng.choice(LINES), "raw": rng.choice(RAWS)}
    else:
        cfg["init"] = {"key": rng.choice(BKEYS), "value": rng.choice(["x", "y"]),
                       "line": rng.choice(LINES), "raw": rng.choice(RAWS)}
    maxops = 30 if tier == "quick" else rng.choice([30, 40, 60])
    n = rng.randint(1, maxops)
    keys = KEYS
    if subject == "entry" and rng.random() < (0.01 if tier == "quick" else 0.05):
        # size swarm: many fields, long histories
        keys = KEYS + ["f%d" % i for i in range(rng.choice([20, 80, 300]))]
        n = rng.randint(100, 300 if tier == "quick" else 1500)
        if "init" in cfg:
            cfg["init"]["fields"] = [[k, rng.choice(VALS), rng.choice(LINES)] for k in rng.sample(keys, min(len(keys), rng.choice([10, 60, 200])))]
    ops = []
    p_fork = rng.choice([0.05, 0.12, 0.25])
    p_perturb = rng.choice([0.1, 0.25]) if subject == "entry" else 0.6
    has_fork = False
    for _ in range(n):
        r = rng.random()
        h = rng.randint(0, 1) if has_fork else 0
        if r < p_fork or (not has_fork and subject != "entry" and r < 0.4):
            how = rng.choice(["copy", "deepcopy", "deepcopy"])
            ops.append({"op": "fork", "how": how})
            has_fork = has_fork or how == "deepcopy"
            continue
        if r < p_fork + (max(p_perturb, 0.4) if has_fork else p_perturb):
            attr = rng.choice(["type", "key", "raw", "line", "meta", "fkey", "fval", "fline", "value", "metadel"])
            ops.append({"op": "perturb", "h": h, "attr": attr, "i": rng.randrange(6 if keys is KEYS else 400), "j": rng.randrange(8)})
            continue
        if subject != "entry":
            ops.append({"op": rng.choice(["cross", "cross", "read_meta"]), "h": h})
            continue
        if rng.random() < 0.06:
            ops.append({"op": rng.choice(["read_meta", "share_field", "share_field", "shallow", "rotate", "rotate"]), "h": h, "k": rng.choice(keys)})
            continue
        k = rng.choice(keys)
        kind = rng.choice(["set_field", "set_field", "setitem", "setitem", "pop", "pop_default", "delitem",
                           "get", "get_default", "contains", "getitem", "reserved", "items", "views"])
        op = {"op": kind, "h": h, "k": k}
        if kind in ("set_field", "setitem"):
            op["v"] = rng.choice(VALS)
            op["line"] = rng.choice(LINES)
        ops.append(op)
    return {"config": cfg, "ops": ops}


# ------------------------------------------------------------------ model


class EModel:
    """Insertion-ordered dict key -> Field identity, plus scalar attributes."""

    def __init__(self):
        self.d = {}
        self.type = None
        self.key = None
        self.line = None
        self.raw = None
        self.meta = {}

    def content(self):
        return ("entry", self.type, self.key, self.line, self.raw, _canon(self.meta),
                tuple((k, _canon(f.value), f.start_line) for k, f in self.d.items()))


class SModel:
    def __init__(self, cls, key, value, line, raw):
        self.cls, self.key, self.value, self.line, self.raw = cls, key, value, line, raw
        self.meta = {}

    def content(self):
        return (self.cls, self.key, _canon(self.value), self.line, self.raw, _canon(self.meta))


def hash_free_index(text, n):
    """Deterministic index from a string without hash() (which is salted per process)."""
    return sum(ord(c) for c in str(text)) % max(1, n)


def _canon(v):
    if isinstance(v, list):
        return ("list",) + tuple(_canon(x) for x in v)
    if isinstance(v, dict):
        return ("dict",) + tuple(sorted((repr(k), _canon(x)) for k, x in v.items()))
    return (type(v).__name__, v)


def _build_simple(subject, m):
    if subject == "string":
        o = M.String(key=m.key, value=m.value, start_line=m.line, raw=m.raw)
    elif subject == "preamble":
        o = M.Preamble(value=m.value, start_line=m.line, raw=m.raw)
    elif subject == "xcomment":
        o = M.ExplicitComment(comment=m.value, start_line=m.line, raw=m.raw)
    elif subject == "icomment":
        o = M.ImplicitComment(comment=m.value, start_line=m.line, raw=m.raw)
    elif subject == "field":
        o = M.Field(key=m.key, value=m.value, start_line=m.line)
    else:
        raise ValueError(subject)
    if subject != "field":
        for k, v in m.meta.items():
            o.set_parser_metadata(k, v)
    return o


def _build_entry(m):
    e = M.Entry(entry_type=m.type, key=m.key, fields=list(m.d.values()), start_line=m.line, raw=m.raw)
    for k, v in m.meta.items():
        e.set_parser_metadata(k, v)
    return e


def _obs(e):
    """What an entry shows, field by field (identity of the Field, its key, value and line)."""
    return (e.entry_type, e.key, tuple((id(f), f.key, _canon(f.value), f.start_line) for f in e.fields))


def _inconsistent(e):
    """Model-free: fields, fields_dict, items(), get, in and [] must describe the same fields (distinct keys assumed)."""
    fl = e.fields
    keys = [f.key for f in fl]
    if len(set(keys)) != len(keys):
        return None
    fd = e.fields_dict
    if list(fd) != keys or any(fd[k] is not f for k, f in zip(keys, fl)):
        return f"fields are {keys} but fields_dict describes {list(fd)}"
    it = [(k, v) for k, v in e.items() if k not in ("ENTRYTYPE", "ID")]
    if [k for k, _ in it] != keys or any(v is not f.value for (_, v), f in zip(it, fl)):
        return f"fields are {keys} but items() describes {[k for k, _ in it]}"
    for f in fl:
        if e.get(f.key) is not f or f.key not in e or e[f.key] is not f.value:
            return f"field {f.key!r} is in fields but get / in / [] do not find that field"
    return None


def execute(run, props):
    res = RunResult()
    cfg = run["config"]
    subject = cfg["subject"]
    shared = {}         # id -> Field object the caller put into both holders (kept alive, so that ids are not recycled)
    holders = [None, None]   # real objects
    models = [None, None]

    def V(clause, sig, step, msg):
        res.violate("C19", clause, f"C19/{clause}/{sig}", step, msg)

    # ---- initial state
    if subject == "entry":
        m = EModel()
        if "source" in cfg:
            from ..repo import mws
            st = cfg.get("source_stack", "none")
            kw = {"none": {"parse_stack": []}, "default": {},
                  "sort_alpha": {"append_middleware": [mws.SortFieldsAlphabeticallyMiddleware()]},
                  "sort_custom": {"append_middleware": [mws.SortFieldsCustomMiddleware(order=("year", "title"))]},
                  "normkeys": {"parse_stack": [mws.NormalizeFieldKeys()]},
                  "month": {"append_middleware": [mws.MonthIntMiddleware()]}}[st]
            lib = EP.parse_string(cfg["source"], **kw)
            res.probes["entry_parsed_with_" + st] += 1
            ents = lib.entries
            if len(ents) != 1:
                res.precondition_miss += 1
                return res
            e = ents[0]
            m.type, m.key, m.line, m.raw = e.entry_type, e.key, e.start_line, e.raw
            m.meta = dict(e.parser_metadata)
            for f in e.fields:
                if f.key in m.d or f.key in ("ENTRYTYPE", "ID"):
                    res.precondition_miss += 1
                    return res
                m.d[f.key] = f
        else:
            i = cfg["init"]
            m.type, m.key, m.line, m.raw = i["type"], i["key"], i["line"], i["raw"]
            for k, v, ln in i["fields"]:
                m.d[k] = M.Field(key=k, value=copy.deepcopy(v), start_line=ln)
            e = _build_entry(m)
        holders[0], models[0] = e, m
    else:
        i = cfg["init"]
        m = SModel(subject, i["key"] if subject in ("string", "field") else None, i["value"], i["line"],
                   i["raw"] if subject != "field" else None)
        holders[0], models[0] = _build_simple(subject, m), m

    def check_entry(h, step, label):
        e, m = holders[h], models[h]
        fl = e.fields
        if [f.key for f in fl] != list(m.d) or any(a is not b for a, b in zip(fl, m.d.values())):
            V("order", label, step, f"after {label}: fields are {[f.key for f in fl]}, an insertion-ordered dict has {list(m.d)}"
              + ("" if [f.key for f in fl] != list(m.d) else " (same keys but not the same Field objects)"))
            return False
        fd = e.fields_dict
        if list(fd) != list(m.d) or any(fd[k] is not m.d[k] for k in m.d):
            V("views", label + "/fields_dict", step, f"fields_dict {list(fd)} does not describe the fields {list(m.d)}")
            return False
        it = [(k, v) for k, v in e.items() if k not in ("ENTRYTYPE", "ID")]
        want = [(k, f.value) for k, f in m.d.items()]
        if len(it) != len(want) or any(a[0] != b[0] or a[1] is not b[1] for a, b in zip(it, want)):
            V("views", label + "/items", step, f"items() {it!r} does not describe the fields {want!r}")
            return False
        if e["ENTRYTYPE"] != m.type or e["ID"] != m.key or e.entry_type != m.type or e.key != m.key:
            V("reserved", label, step, f"ENTRYTYPE/ID lookups give {e['ENTRYTYPE']!r}/{e['ID']!r}, entry has {m.type!r}/{m.key!r}")
            return False
        return True

    def check_eq(step, label):
        for h in (0, 1):
            if holders[h] is not None:
                o = holders[h]
                if not (o == o) or (o != o):
                    V("equality", "reflexive/" + label, step, f"{type(o).__name__} does not compare equal to itself")
                    return False
        if holders[0] is None or holders[1] is None:
            return True
        want = models[0].content() == models[1].content()
        got1 = holders[0] == holders[1]
        got2 = holders[1] == holders[0]
        ne = holders[0] != holders[1]
        if got1 != want or got2 != want or ne == want:
            a = "equal" if want else "different"
            V("equality", ("missed-difference/" if not want else "spurious-difference/") + label, step,
              f"after {label}: contents are {a} ({models[0].content()} vs {models[1].content()}) "
              f"but == gives {got1}/{got2}, != gives {ne}")
            return False
        res.probes["eq_true" if want else "eq_false"] += 1
        return True

    diverged = False
    for step, op in enumerate(run["ops"]):
        kind = op["op"]
        h = op.get("h", 0)
        if holders[h] is None:
            h = 0
        obj, m = holders[h], models[h]
        outcome = "ok"
        label = kind
        other = holders[1 - h] if subject == "entry" else None
        other_before = _obs(other) if other is not None else None
        check_isolation = kind not in ("fork", "share_field")

        if kind == "fork":
            how = op["how"]
            src, sm = holders[0], models[0]
            try:
                cp = copy.copy(src) if how == "copy" else copy.deepcopy(src)
            except Exception as e:  # noqa
                V("equality", f"fork-{how}-raised", step, f"{how} of a {type(src).__name__} raised {type(e).__name__}: {e}")
                return res
            res.sim_steps += 1
            res.nops += 1
            if type(cp) is not type(src) or not (cp == src) or not (src == cp) or (cp != src):
                V("equality", f"copy-not-equal/{how}", step, f"{how} of {sm.content()} does not compare equal to its original")
                return res
            res.probes["fork_" + how] += 1
            if how == "deepcopy":
                holders[1] = cp
                if subject == "entry":
                    nm = EModel()
                    nm.type, nm.key, nm.line, nm.raw = sm.type, sm.key, sm.line, sm.raw
                    nm.meta = copy.deepcopy(sm.meta)
                    fl = cp.fields
                    if [f.key for f in fl] != list(sm.d):
                        V("equality", "deepcopy-fields", step, "deep copy has other field keys than its original")
                        return res
                    for f in fl:
                        if f is sm.d[f.key]:
                            res.probes["deepcopy_shares_field"] += 1
                        nm.d[f.key] = f
                    models[1] = nm
                else:
                    models[1] = SModel(sm.cls, sm.key, copy.deepcopy(sm.value), sm.line, sm.raw)
                    models[1].meta = copy.deepcopy(sm.meta)
                diverged = False
            label = "fork-" + how

        elif kind == "perturb":
            attr = op["attr"]
            label = "perturb-" + attr
            i, j = op["i"], op["j"]
            done = False
            if subject == "entry":
                keys = list(m.d)
                if attr == "type":
                    m.type = TYPES[j % len(TYPES)]
                    obj.entry_type = m.type
                    done = True
                elif attr == "key":
                    m.key = BKEYS[j % len(BKEYS)]
                    obj.key = m.key
                    done = True
                elif attr in ("raw", "line"):
                    if attr == "raw":
                        m.raw = RAWS[j % len(RAWS)]
                    else:
                        m.line = LINES[j % len(LINES)]
                    holders[h] = obj = _build_entry(m)   # public constructor: same Field objects
                    done = True
                elif attr == "meta":
                    m.meta["m%d" % (i % 2)] = j % 3
                    obj.set_parser_metadata("m%d" % (i % 2), j % 3)
                    done = True
                elif attr == "metadel":
                    k = "m%d" % (i % 2)
                    if k in m.meta:
                        del m.meta[k]
                        del obj.parser_metadata[k]
                        done = True
                elif attr == "fkey" and keys:
                    k = keys[i % len(keys)]
                    nk = KEYS[j % len(KEYS)]
                    if nk not in m.d and id(m.d[k]) not in shared:
                        f = m.d[k]
                        f.key = nk
                        m.d = {(nk if kk == k else kk): ff for kk, ff in m.d.items()}
                        done = True
                elif attr in ("fval", "value") and keys and id(m.d[keys[i % len(keys)]]) not in shared:
                    k = keys[i % len(keys)]
                    m.d[k].value = copy.deepcopy(VALS[j % len(VALS)])
                    done = True
                elif attr == "fline" and keys:
                    k = keys[i % len(keys)]
                    old = m.d[k]
                    nf = M.Field(key=k, value=old.value, start_line=LINES[j % len(LINES)])
                    obj.set_field(nf)
                    m.d[k] = nf
                    done = True
            else:
                if attr in ("key",) and subject in ("string", "field"):
                    m.key = BKEYS[j % len(BKEYS)]
                    obj.key = m.key
                    done = True
                elif attr in ("value", "fval"):
                    m.value = ["x", "y", "z", ["x"], 1][j % 5]
                    if subject in ("xcomment", "icomment"):
                        obj.comment = m.value
                    else:
                        obj.value = m.value
                    done = True
                elif attr in ("line", "fline"):
                    m.line = LINES[j % len(LINES)]
                    holders[h] = obj = _build_simple(subject, m)
                    done = True
                elif attr == "raw" and subject != "field":
                    m.raw = RAWS[j % len(RAWS)]
                    holders[h] = obj = _build_simple(subject, m)
                    done = True
                elif attr == "meta" and subject != "field":
                    m.meta["m%d" % (i % 2)] = j % 3
                    obj.set_parser_metadata("m%d" % (i % 2), j % 3)
                    done = True
            if not done:
                res.skipped += 1
                res.event(step, label, "skipped", "")
                continue
            res.sim_steps += 1
            res.nops += 1
            res.nontrivial = True
            res.probes["perturb_" + attr] += 1

        elif kind == "read_meta":
            # reading must not change anything (lazily created state would show up in equality)
            label = "read-metadata"
            _ = obj.parser_metadata if subject != "field" else None
            if subject != "field":
                obj.get_parser_metadata("never-set")
            res.sim_steps += 1
            res.nops += 1
            res.probes["read_metadata"] += 1

        elif kind == "share_field" and subject == "entry":
            # the caller puts one Field object into both entries (b.set_field(a.get(k)))
            label = "share-field"
            if holders[1] is None or not models[0].d:
                res.skipped += 1
                res.event(step, label, "skipped", "")
                continue
            ks = list(models[0].d)
            f = models[0].d[ks[hash_free_index(op.get("k", ""), len(ks))]]
            holders[1].set_field(f)
            models[1].d[f.key] = f
            shared[id(f)] = f
            res.sim_steps += 1
            res.nops += 1
            res.nontrivial = True
            res.probes["field_object_shared_between_entries"] += 1

        elif kind == "shallow" and subject == "entry":
            # look something up, take a shallow copy, change the copy: every view of both must stay consistent
            label = "shallow-copy-scenario"
            E = copy.deepcopy(obj)
            k = op.get("k", "a")
            E.get(k), (k in E), E.fields_dict, E.items()
            C = copy.copy(E)
            how = ["setitem", "set_field", "pop"][hash_free_index(k, 3)]
            try:
                if how == "setitem":
                    C[k] = "shallow"
                elif how == "set_field":
                    C.set_field(M.Field(k, "shallow", 5))
                else:
                    C.pop(k)
            except Exception as e:  # noqa
                V("exception", "shallow-copy/" + how, step, f"{how} on a shallow copy raised {type(e).__name__}: {e}")
                return res
            res.sim_steps += 1
            res.nops += 1
            for who, e_ in (("the original", E), ("the shallow copy", C)):
                bad = _inconsistent(e_)
                if bad:
                    V("views", "after-change-through-shallow-copy/" + how, step, f"after {how}({k!r}) on a shallow copy, {who} is inconsistent: {bad}")
                    return res
            res.probes["shallow_copy_scenario"] += 1

        elif kind == "rotate" and subject == "entry":
            # take a field out and put the very same Field back: same fields, other order
            label = "rotate"
            if not m.d:
                res.skipped += 1
                res.event(step, label, "skipped", "")
                continue
            ks = list(m.d)
            k = ks[hash_free_index(op.get("k", ""), len(ks))]
            f = obj.pop(k)
            if f is not m.d[k]:
                V("result", "pop", step, f"pop({k!r}) did not return the field held under that key")
                return res
            obj.set_field(f)
            del m.d[k]
            m.d[k] = f
            res.sim_steps += 2
            res.nops += 1
            res.nontrivial = True
            res.probes["field_moved_to_the_end"] += 1

        elif kind in ("share_field", "shallow", "rotate"):
            res.skipped += 1
            res.event(step, kind, "skipped", "")
            continue

        elif kind == "cross":
            # same content, another class: never equal
            label = "cross-class"
            others = {"xcomment": "icomment", "icomment": "xcomment", "preamble": "xcomment", "string": "field", "field": "string"}
            other = _build_simple(others[subject], SModel(others[subject], m.key if m.key is not None else "k1", m.value, m.line, None))
            mine = _build_simple(subject, SModel(subject, m.key, m.value, m.line, None))
            res.sim_steps += 1
            res.nops += 1
            if mine == other or other == mine or not (mine != other):
                V("equality", "cross-class", step, f"a {type(mine).__name__} compares equal to a {type(other).__name__} with the same content")
                return res
            res.probes["cross_class"] += 1

        elif subject != "entry":
            res.skipped += 1
            res.event(step, kind, "skipped", "")
            continue

        else:
            k = op["k"]
            res.sim_steps += 1
            res.nops += 1
            present = k in m.d
            try:
                if kind == "set_field":
                    f = M.Field(key=k, value=copy.deepcopy(op["v"]), start_line=op["line"])
                    r = obj.set_field(f)
                    res.probes["replace_keeps_position" if present else "new_key_appends"] += 1
                    m.d[k] = f
                    res.nontrivial = True
                elif kind == "setitem":
                    v = copy.deepcopy(op["v"])
                    obj[k] = v
                    got = obj.fields_dict.get(k)
                    if not isinstance(got, M.Field) or got.key != k or got.value is not v:
                        V("result", "setitem", step, f"e[{k!r}] = {v!r} did not store a field with that key and value")
                        return res
                    res.probes["replace_keeps_position" if present else "new_key_appends"] += 1
                    m.d[k] = got
                    res.nontrivial = True
                elif kind in ("pop", "pop_default"):
                    dflt = ("sentinel",)
                    try:
                        r = obj.pop(k) if kind == "pop" else obj.pop(k, dflt)
                    except KeyError:
                        if present or kind != "pop":
                            raise
                        r = None             # dict.pop(absent) without default raises; Entry.pop documents default=None: both accepted
                        outcome = "KeyError"
                    want = m.d.pop(k) if present else (None if kind == "pop" else dflt)
                    # dict.pop(k) without default raises KeyError; Entry.pop documents default=None
                    if r is not want:
                        V("result", kind, step, f"pop({k!r}) returned {r!r}, the mapping holds {want!r}")
                        return res
                    if present:
                        pos = "middle"
                        res.probes["pop_closes_gap"] += 1
                        res.nontrivial = True
                    else:
                        res.probes["pop_absent"] += 1
                elif kind == "delitem":
                    try:
                        del obj[k]
                    except KeyError:
                        if present:
                            raise
                        outcome = "KeyError"   # dict semantics; silent is accepted too
                    if present:
                        del m.d[k]
                        res.nontrivial = True
                    else:
                        res.probes["del_absent"] += 1
                elif kind in ("get", "get_default"):
                    dflt = ("sentinel",)
                    r = obj.get(k) if kind == "get" else obj.get(k, dflt)
                    want = m.d.get(k) if kind == "get" else m.d.get(k, dflt)
                    if r is not want:
                        V("result", kind, step, f"get({k!r}) returned {r!r}, the mapping holds {want!r}")
                        return res
                elif kind == "contains":
                    r = k in obj
                    if r is not present:
                        V("result", "contains", step, f"{k!r} in entry is {r!r}, the mapping says {present}")
                        return res
                elif kind == "getitem":
                    try:
                        r = obj[k]
                        if not present:
                            V("result", "getitem-absent", step, f"e[{k!r}] returned {r!r} for an absent key (a mapping raises KeyError)")
                            return res
                        if r is not m.d[k].value:
                            V("result", "getitem", step, f"e[{k!r}] returned {r!r}, the mapping holds {m.d[k].value!r}")
                            return res
                    except KeyError:
                        if present:
                            V("result", "getitem", step, f"e[{k!r}] raised KeyError for a present key")
                            return res
                        outcome = "KeyError"
                elif kind in ("reserved", "items", "views"):
                    pass  # evaluated by check_entry below
                else:
                    raise ValueError(kind)
            except Exception as e:  # noqa
                V("exception", kind, step, f"{kind}({k!r}) raised {type(e).__name__}: {e}")
                return res
            ks = list(m.d)
            low = [x.lower() for x in ks]
            if len(set(low)) < len(low):
                res.probes["case_variant_keys_coexist"] += 1

        # ---- isolation: what the caller did to one entry must not show in the other one
        if other is not None and check_isolation and holders[1 - h] is other and _obs(other) != other_before:
            V("isolation", label, step,
              f"{label} on one entry changed another entry that merely holds "
              + ("one of the same Field objects" if shared else "a deep copy") + f": {other_before[2]} -> {_obs(other)[2]}")
            return res

        # ---- invariants after every op
        if subject == "entry":
            for hh in (0, 1):
                if holders[hh] is not None and not check_entry(hh, step, label):
                    return res
        if not check_eq(step, label):
            return res
        if holders[1] is not None:
            same = models[0].content() == models[1].content()
            if not same:
                diverged = True
            elif diverged:
                res.probes["diverged_then_reconverged"] += 1
                diverged = False
        st = (subject, tuple(models[0].d) if subject == "entry" else None,
              None if holders[1] is None else (models[0].content() == models[1].content()))
        res.states.add(st)
        res.event(step, label, outcome, digest(st, n=8))
    return res
