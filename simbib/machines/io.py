"""M-IO (C20): entry points vs explicit composition; file wrappers vs string
functions under raw-device faults; the block-middleware result protocol.

Seams: entrypoint.open -> SimDisk.open (module-global shadow); parse_stack /
append_middleware / unparse_stack / prepend_middleware -> probe middlewares.
"""
import copy
import errno
import io as pyio

from .. import docgen, simfs
from ..engine import RunResult
from ..fingerprint import digest
from ..fingerprint import public_fingerprint as fingerprint
from ..repo import entrypoint as EP
from ..repo import model as M
from ..repo import mwbase
from ..repo import mws
from ..repo import splitter as SP
from ..repo import writer as W
from .store import draw_format, mk_format

NAME = "io"
PROPS = ("C20",)

ENCODINGS = ["utf-8", "latin-1", "gbk", "utf-16"]
RETURNS = ["none", "empty_list", "empty_tuple", "same", "new", "list2", "tuple3", "gen", "int", "obj", "str", "list_bad", "list1", "repeat2", "list_none", "buffer"]
INVALID = {"int", "obj", "str", "list_bad", "list_none"}
BLOCK_CLASSES = ["Entry", "String", "Preamble", "ExplicitComment", "ImplicitComment", "ParsingFailedBlock", "DuplicateBlockKeyBlock", "DuplicateFieldKeyBlock"]


# ------------------------------------------------------------------ probe middlewares (fakes)


def _tag(entry, tag):
    f = entry.fields_dict.get("trace")
    if f is None:
        entry.set_field(M.Field("trace", tag))
    elif isinstance(f.value, str):
        f.value = f.value + "," + tag
    else:
        f.value = repr(f.value) + "," + tag


class TagBlock(mwbase.BlockMiddleware):
    """Order-sensitive, idempotence-free: appends its tag to a trace field of every entry."""

    def __init__(self, tag, inplace):
        super().__init__(allow_inplace_modification=inplace, allow_parallel_execution=True)
        self.tag = tag

    def transform_entry(self, entry, library):
        _tag(entry, self.tag)
        return entry

    def transform_string(self, string, library):
        if isinstance(string.value, str):
            string.value = string.value + "+" + self.tag
        return string


class TagLib(mwbase.LibraryMiddleware):
    def __init__(self, tag, inplace):
        super().__init__(allow_inplace_modification=inplace)
        self.tag = tag

    def transform(self, library):
        library = super().transform(library)
        for e in library.entries:
            _tag(e, self.tag)
        return library


class Boom(mwbase.BlockMiddleware):
    """Fails on its n-th entry: the blocks before it have already been transformed (in place, if allowed)."""

    def __init__(self, n, inplace):
        super().__init__(allow_inplace_modification=inplace, allow_parallel_execution=True)
        self.n = n
        self.seen = 0

    def transform_entry(self, entry, library):
        self.seen += 1
        if self.seen == self.n:
            raise RuntimeError("middleware failed on entry %d" % self.n)
        _tag(entry, "boom")
        return entry


class MarkLib(mwbase.LibraryMiddleware):
    """Library-level probe whose effect does not depend on the blocks present: adds one marker comment."""

    def __init__(self, tag, inplace):
        super().__init__(allow_inplace_modification=inplace)
        self.tag = tag

    def transform(self, library):
        library = super().transform(library)
        library.add(M.ExplicitComment(comment="marker " + self.tag))
        return library


class DropComments(mwbase.BlockMiddleware):
    def __init__(self, tag, inplace):
        super().__init__(allow_inplace_modification=inplace, allow_parallel_execution=True)

    def transform_explicit_comment(self, c, library):
        return None

    def transform_implicit_comment(self, c, library):
        return []


class Protocol(mwbase.BlockMiddleware):
    """Returns, per block class, a configured kind of result; records what it returned."""

    def __init__(self, returns):
        super().__init__(allow_inplace_modification=True, allow_parallel_execution=False)
        self.returns = returns
        self.log = []      # (block, kind, returned objects or None if invalid)
        self.n = 0
        self.buf = []      # kind "buffer": one list object, refilled for every block (a middleware reusing its output buffer)

    def _new(self):
        self.n += 1
        return M.ExplicitComment(comment=f"new{self.n}")

    def transform_block(self, block, library):
        kind = self.returns.get(type(block).__name__, "same")
        if kind == "none":
            r, exp = None, []
        elif kind == "empty_list":
            r, exp = [], []
        elif kind == "empty_tuple":
            r, exp = (), []
        elif kind == "same":
            r, exp = block, [block]
        elif kind == "new":
            r = self._new()
            exp = [r]
        elif kind == "list1":
            r = [block]
            exp = [block]
        elif kind == "list2":
            r = [block, self._new()]
            exp = list(r)
        elif kind == "repeat2":
            r = [block, block]            # the same block twice: both occurrences go into the output, in place
            exp = list(r)
        elif kind == "tuple3":
            r = (self._new(), block, self._new())
            exp = list(r)
        elif kind == "buffer":
            self.buf.clear()
            self.buf.extend([self._new(), block])
            r = self.buf                  # the result is what the list holds when it is returned
            exp = list(r)
        elif kind == "gen":
            exp = [block, self._new()]
            r = (b for b in exp)
        elif kind == "int":
            r, exp = 7, None
        elif kind == "obj":
            r, exp = object(), None
        elif kind == "str":
            r, exp = "text", None
        elif kind == "list_bad":
            r, exp = [block, "not a block"], None
        elif kind == "list_none":
            r, exp = [block, None, self._new()], None       # None is "no block" only as the whole result, not as an item
        else:
            raise ValueError(kind)
        self.log.append((block, kind, exp))
        return r


SHIPPED = [
    lambda ip: mws.RemoveEnclosingMiddleware(allow_inplace_modification=ip),
    lambda ip: mws.AddEnclosingMiddleware(reuse_previous_enclosing=False, enclose_integers=True, default_enclosing="{", allow_inplace_modification=ip),
    lambda ip: mws.AddEnclosingMiddleware(reuse_previous_enclosing=True, enclose_integers=False, default_enclosing='"', allow_inplace_modification=ip),
    lambda ip: mws.ResolveStringReferencesMiddleware(allow_inplace_modification=ip),
    lambda ip: mws.NormalizeFieldKeys(allow_inplace_modification=ip),
    lambda ip: mws.SortFieldsAlphabeticallyMiddleware(allow_inplace_modification=ip),
    lambda ip: mws.SortBlocksByTypeAndKeyMiddleware(),
    lambda ip: mws.MonthIntMiddleware(allow_inplace_modification=ip),
]


def build_mw(d):
    k = d["k"]
    if k == "tagb":
        return TagBlock(d["t"], d["ip"])
    if k == "tagl":
        return TagLib(d["t"], d["ip"])
    if k == "drop":
        return DropComments(d.get("t", ""), d["ip"])
    if k == "boom":
        return Boom(d["n"], d["ip"])
    if k == "mark":
        return MarkLib(d.get("t", "m"), d["ip"])
    if k == "shipped":
        return SHIPPED[d["i"] % len(SHIPPED)](d["ip"])
    raise ValueError(k)


def build_stack(descs, kind):
    if descs is None:
        return None
    lst = []
    for d in descs:
        if d["k"] == "again":
            if lst:
                lst.append(lst[-1])     # the very same instance a second time, directly after itself
            continue
        lst.append(build_mw(d))
    if kind == "tuple":
        return tuple(lst)
    if kind == "iter":
        return iter(lst)
    return lst


# ------------------------------------------------------------------ generation


def _mwdesc(rng, tags):
    r = rng.random()
    ip = rng.random() < 0.6
    if r < 0.45:
        return {"k": "tagb", "t": tags.pop(0), "ip": ip}
    if r < 0.65:
        return {"k": "tagl", "t": tags.pop(0), "ip": ip}
    if r < 0.72:
        return {"k": "drop", "ip": ip}
    if r < 0.76:
        return {"k": "boom", "n": rng.choice([1, 2, 2, 3]), "ip": ip}
    if r < 0.80:
        return {"k": "again", "ip": ip}
    if r < 0.85:
        return {"k": "mark", "t": tags.pop(0), "ip": ip}
    return {"k": "shipped", "i": rng.randrange(len(SHIPPED)), "ip": ip}


def _args(rng, both_p=0.08):
    tags = list("abcdefgh")
    r = rng.random()
    kind = rng.choice(["list", "list", "list", "tuple", "iter"])
    full = [_mwdesc(rng, tags) for _ in range(rng.randint(0, 3))]
    add = [_mwdesc(rng, tags) for _ in range(rng.randint(0, 3))]
    if r < both_p:
        return {"full": full, "add": add, "kind": kind}
    if r < 0.5:
        return {"full": full, "add": None, "kind": kind}
    if r < 0.9:
        return {"full": None, "add": add, "kind": kind}
    return {"full": None, "add": None, "kind": kind}


def _raw_faults(rng, writing):
    r = rng.random()
    if r < 0.35:
        return []
    if r < 0.41:
        return [{"call": "open", "kind": rng.choice(["eacces", "enoent", "eisdir", "emfile"])}]
    kinds = ["short", "short", "eintr"] if r < 0.75 else (["short", "eintr", "eio", "enospc"] if writing else ["short", "eintr", "eio"])
    return [{"call": rng.randrange(6), "kind": rng.choice(kinds), "arg": rng.choice([1, 1, 2, 3, 7])}
            for _ in range(rng.randint(1, 4))]


def generate(rng, tier, prop):
    locale = rng.choice(ENCODINGS)
    cfg = {"locale": locale, "platform_newline": rng.choice(["\n", "\n", "\r\n"]), "buffer": rng.choice([1, 2, 3, 16, 8192]),
           "docs": [], "formats": [draw_format(rng) for _ in range(2)]}
    for _ in range(rng.randint(1, 2)):
        enc = rng.choice(ENCODINGS)
        kn = docgen.draw_knobs(rng, tier, enc)
        kn.update({"nblocks": rng.choice([0, 1, 2, 3, 5]) if rng.random() > (0.04 if tier == "quick" else 0.1) else rng.choice([40, 120, 400]), "collide": rng.random() < 0.2, "names": False})
        d = docgen.make_doc(rng, kn)
        try:
            d["text"].encode(enc)
        except UnicodeError:
            kn["nonascii"] = "none"
            d = docgen.make_doc(rng, kn)
        cfg["docs"].append({"text": d["text"], "enc": enc})
    ops = []
    n = rng.randint(2, 8)
    for _ in range(n):
        r = rng.random()
        d = rng.randrange(len(cfg["docs"]))
        if rng.random() < 0.04:
            ops.append({"op": "tamper_defaults", "how": rng.choice(["clear", "insert", "insert"]), "at": rng.randrange(3)})
        if r < 0.22:
            ops.append({"op": "parse_string", "doc": d, "args": _args(rng)})
        elif r < 0.40:
            ops.append({"op": "write_string", "lib": rng.randrange(8), "args": _args(rng), "fmt": rng.choice([None, 0, 1])})
        elif r < 0.62:
            enc = cfg["docs"][d]["enc"]
            ops.append({"op": "put", "path": "f%d.bib" % d, "doc": d, "encoding": enc,
                        "newline": rng.choice(["\n", "\n", "\r\n", "\r"]), "bom": enc == "utf-8" and rng.random() < 0.15})
            ops.append({"op": "parse_file", "path": "f%d.bib" % d,
                        "encoding": enc if rng.random() < 0.85 else rng.choice(ENCODINGS),
                        "enc_arg": rng.random() < 0.9,
                        "args": _args(rng), "raw_faults": _raw_faults(rng, False)})
        elif r < 0.84:
            tgt = rng.choice([{"path": "out.bib"}, {"path": "out.bib"}, {"fileobj": "text"}, {"fileobj": "recording"}])
            if "path" in tgt and rng.random() < 0.45:
                ops.append({"op": "plant", "path": "out.bib", "how": rng.choice(["longer", "longer", "binary", "utf16", "crlf", "crlf"])})
            ops.append({"op": "write_file", "target": tgt, "lib": rng.randrange(8), "args": _args(rng),
                        "fmt": rng.choice([None, 0, 1]), "raw_faults": _raw_faults(rng, True)})
        else:
            rets = {c: rng.choice(RETURNS) for c in BLOCK_CLASSES}
            if rng.random() < 0.5:
                for c in BLOCK_CLASSES:   # mostly valid, at most one invalid class
                    if rets[c] in INVALID:
                        rets[c] = "same"
                if rng.random() < 0.4:
                    rets[rng.choice(BLOCK_CLASSES)] = rng.choice(sorted(INVALID))
            ops.append({"op": "block_mw", "lib": rng.randrange(8), "returns": rets, "via": rng.choice(["transform", "parse_stack", "unparse_stack"]),
                        "doc": d})
    return {"config": cfg, "ops": ops}


# ------------------------------------------------------------------ execution


class ArgWatch:
    """Remembers what the caller's stack arguments held, to check afterwards that the callee left them alone."""

    def __init__(self):
        self.seen = []

    def __call__(self, obj):
        if isinstance(obj, list):
            self.seen.append((obj, list(obj)))
        return obj

    def disturbed(self):
        for obj, before in self.seen:
            if len(obj) != len(before) or any(a is not b for a, b in zip(obj, before)):
                return f"a list the caller passed as a stack argument went from {len(before)} to {len(obj)} items"
        return None


def fold(stack, lib):
    for m in stack:
        lib = m.transform(library=lib)
    return lib


def _outcome(fn):
    try:
        return ("ok", fn())
    except BaseException as e:  # noqa
        if isinstance(e, (KeyboardInterrupt, SystemExit)) or type(e).__name__ == "RunTimeout":
            raise
        return ("raised", e)


def _same_exc(a, b):
    return type(a) is type(b) and str(a) == str(b)


class Recording:
    """A caller-supplied text file object that only records what it is given."""

    def __init__(self):
        self.chunks = []
        self.closed = False

    def close(self):
        self.closed = True

    def __enter__(self):
        return self

    def __exit__(self, *a):
        self.close()
        return False

    def write(self, s):
        if not isinstance(s, str):
            raise TypeError("write() argument must be str")
        self.chunks.append(s)
        return len(s)


def execute(run, props):
    res = RunResult()
    cfg = run["config"]
    disk = simfs.SimDisk(locale=cfg["locale"], platform_newline=cfg["platform_newline"], buffer_size=cfg["buffer"])
    fmts = [mk_format(f) for f in cfg["formats"]]
    libs = []
    # what "the default stack" is, read once at the start of the run, before any caller could have touched anything
    pristine_parse = list(mws.default_parse_stack())
    pristine_unparse = list(mws.default_unparse_stack())
    tampered = []

    def V(clause, sig, step, msg):
        res.violate("C20", clause, f"C20/{clause}/{sig}", step, msg)

    def pattern(a):
        return ("full" if a["full"] is not None else "-") + "+" + ("add" if a["add"] is not None else "-") + ":" + a["kind"]

    def compare(step, label, got, want, both):
        """got / want are ('ok', value) or ('raised', exc)."""
        if both:
            if got[0] != "raised" or not isinstance(got[1], ValueError):
                V("both-args", label, step, f"{label} with both a full stack and an addition did not raise ValueError: {got[0]} {got[1] if got[0]=='raised' else ''}")
                return False
            res.probes["both_args_value_error"] += 1
            return True
        if got[0] != want[0]:
            V("composition", label + "/outcome", step,
              f"{label}: entry point {got[0]} ({got[1] if got[0]=='raised' else type(got[1]).__name__!r}) but the explicit composition {want[0]} ({want[1] if want[0]=='raised' else ''})")
            return False
        if got[0] == "raised":
            if type(got[1]) is not type(want[1]):
                V("composition", label + "/exception", step, f"{label}: entry point raised {got[1]!r}, explicit composition raised {want[1]!r}")
                return False
            res.probes["stack_raised_same_exception"] += 1
            return True
        return None  # both ok: caller compares values

    from .store import _undo
    with simfs.installed(disk), _undo(tampered):
        for step, op in enumerate(run["ops"]):
            kind = op["op"]
            res.nops += 1

            if kind == "tamper_defaults":
                # a caller customises the lists it got from the public accessors; the entry points' defaults must not move
                try:
                    ps, us = mws.default_parse_stack(), mws.default_unparse_stack()
                    tampered.append((ps, list(ps)))
                    tampered.append((us, list(us)))
                    if op["how"] == "clear":
                        ps.clear()
                        us.clear()
                    else:
                        ps.insert(op.get("at", 0) % (len(ps) + 1), TagBlock("Z", True))
                        us.insert(op.get("at", 0) % (len(us) + 1), TagBlock("Z", True))
                    res.probes["caller_edited_its_copy_of_default_stacks"] += 1
                except Exception:
                    pass
                res.event(step, "tamper_defaults", op["how"], "")
                continue

            if kind == "put":
                d = cfg["docs"][op["doc"] % len(cfg["docs"])]
                text = d["text"].replace("\r\n", "\n")
                if op["newline"] != "\n":
                    text = text.replace("\n", op["newline"])
                try:
                    data = text.encode(op["encoding"])
                except UnicodeError:
                    data = text.encode("utf-8")
                if op.get("bom"):
                    data = b"\xef\xbb\xbf" + data
                disk.put(op["path"], data)
                res.event(step, "put", op["encoding"] + ":" + repr(op["newline"]), "")
                continue

            if kind == "plant":
                how = op.get("how", "longer")
                if how == "binary":
                    disk.put(op["path"], bytes(range(128, 256)) * 20)        # not decodable as UTF-8 / gbk
                elif how == "utf16":
                    disk.put(op["path"], "% an earlier export in another encoding\n".encode("utf-16") * 30)
                elif how == "crlf" and op["path"] in disk.files:
                    old_ = disk.get(op["path"])
                    disk.put(op["path"], old_.replace(b"\r\n", b"\n").replace(b"\n", b"\r\n") if cfg["platform_newline"] == "\n"
                             else old_.replace(b"\r\n", b"\n"))
                else:
                    disk.put(op["path"], b"% pre-existing longer file\n" * 300)
                res.probes["preexisting_longer_file" if how == "longer" else "preexisting_file_" + how] += 1
                res.event(step, "plant", how, "")
                continue

            if kind in ("parse_string", "parse_file"):
                a = op["args"]
                both = a["full"] is not None and a["add"] is not None
                watch = ArgWatch()
                mk = lambda: {"parse_stack": watch(build_stack(a["full"], a["kind"])), "append_middleware": watch(build_stack(a["add"], a["kind"]))}  # noqa
                if kind == "parse_string":
                    text = cfg["docs"][op["doc"] % len(cfg["docs"])]["text"]
                    kw_ = mk()
                    got = _outcome(lambda: EP.parse_string(text, **kw_))
                    res.sim_steps += 1
                    stateless = not any(d["k"] == "boom" for part in (a["full"], a["add"]) if part for d in part)
                    if a["kind"] == "list" and got[0] == "ok" and not both and stateless and rng_free_coin(step, text):
                        # the caller keeps its argument lists and uses them again: the second call is the same call
                        got = _outcome(lambda: EP.parse_string(text, **kw_))
                        res.probes["same_argument_lists_used_twice"] += 1
                    bad = watch.disturbed()
                    if bad:
                        V("composition", "parse_string/callers-argument-list-changed", step, bad)
                        return res

                    def explicit():
                        lib = SP.Splitter(text).split()
                        if a["full"] is not None:
                            st = build_stack(a["full"], "list")
                        else:
                            st = list(pristine_parse) + (build_stack(a["add"], "list") or [])
                        return fold(st, lib)
                    want = _outcome(explicit) if not both else None
                    label = "parse_string(" + pattern(a) + ")"
                    c = compare(step, "parse_string", got, want, both)
                    if c is False:
                        return res
                    if c is None:
                        if not isinstance(got[1], EP.Library):
                            V("composition", "parse_string/type", step, f"parse_string returned {type(got[1]).__name__}")
                            return res
                        if fingerprint(got[1]) != fingerprint(want[1]):
                            V("composition", "parse_string/" + ("given-stack" if a["full"] is not None else "default+append") + ":" + a["kind"], step,
                              f"{label} differs from splitting followed by the requested stack: traces {_traces(got[1])} vs {_traces(want[1])}; "
                              f"blocks {len(got[1].blocks)} vs {len(want[1].blocks)}")
                            return res
                        libs.append(got[1])
                        res.nontrivial = True
                    res.states.add(("parse_string", pattern(a), _classes(a), got[0]))
                    res.event(step, label, got[0], digest(fingerprint(got[1]), n=8) if got[0] == "ok" else type(got[1]).__name__)
                    continue

                # ---- parse_file
                p = op["path"]
                if p not in disk.files:
                    res.skipped += 1
                    res.event(step, kind, "skipped", "")
                    continue
                enc = op["encoding"]
                data = disk.get(p)
                disk.arm(op["raw_faults"])
                kw = mk()
                if op.get("enc_arg", True):
                    got = _outcome(lambda: EP.parse_file(p, encoding=enc, **kw))
                else:
                    enc = "UTF-8"   # the documented default
                    got = _outcome(lambda: EP.parse_file(p, **kw))
                fired = list(disk.fired)
                sizes = list(disk.read_sizes)
                disk.disarm()
                res.sim_steps += 1
                for _, fk in fired:
                    res.faults[fk + "_read"] += 1
                hard = [fk for _, fk in fired if fk in ("eio",)]
                label = "parse_file(" + pattern(a) + ")"
                opened = [fk for c, fk in fired if c == "open"]
                if opened:
                    res.faults_eff["open_" + opened[0]] += 1
                    if got[0] == "raised" and isinstance(got[1], ValueError) and both:
                        res.event(step, label, "both", "")      # arguments checked before the file is touched: fine
                        continue
                    if got[0] != "raised" or not isinstance(got[1], OSError) or isinstance(got[1], UnicodeError):
                        V("file-fault", "parse_file/open-error-not-propagated/" + opened[0], step,
                          f"opening the file failed ({opened[0].upper()}) but parse_file {got[0]} {got[1] if got[0] == 'raised' else 'a library'}")
                        return res
                    res.probes["open_error_propagated_read"] += 1
                    res.event(step, label, "raised:open-" + opened[0], "")
                    continue
                if disk.open_handles != 0:
                    res.probes["handle_left_open"] += 1
                # reference decoding: CPython's own text layer over the complete bytes (its incremental
                # decoder is stricter than bytes.decode, e.g. utf-16 without BOM), no newline translation
                try:
                    t_raw = pyio.TextIOWrapper(pyio.BytesIO(data), encoding=enc, newline="").read()
                    dec_err = None
                except UnicodeError as e:
                    t_raw, dec_err = None, e
                if both:
                    # the file is read before the stacks are looked at: an injected read error or a
                    # decode error may legitimately come first
                    if got[0] == "raised" and ((hard and isinstance(got[1], OSError)) or (dec_err is not None and isinstance(got[1], UnicodeError))):
                        res.event(step, label, "both:io-error-first", "")
                        continue
                    if compare(step, "parse_file", got, None, True) is False:
                        return res
                    res.event(step, label, "both", "")
                    continue
                if hard:
                    for fk in hard:
                        res.faults_eff[fk + "_read"] += 1
                    if got[0] == "ok":
                        V("file-fault", "parse_file/returned-despite-" + hard[0], step,
                          f"a raw read failed with {hard[0].upper()} but parse_file returned a library ({len(got[1].blocks)} blocks) from partial content")
                        return res
                    if not (isinstance(got[1], OSError) and got[1].errno == errno.EIO):
                        V("file-fault", "parse_file/other-error-under-" + hard[0], step, f"injected EIO, parse_file raised {got[1]!r}")
                        return res
                    res.probes["eio_read_propagated"] += 1
                    res.states.add(("parse_file", pattern(a), enc, "eio"))
                    res.event(step, label, "raised:OSError", "")
                    continue
                if dec_err is not None:
                    if got[0] == "ok":
                        V("file-wrapper", "parse_file/undecodable-bytes-accepted", step,
                          f"the file's bytes are not valid {enc} ({dec_err}) but parse_file returned a library")
                        return res
                    if not isinstance(got[1], UnicodeError):
                        V("file-wrapper", "parse_file/undecodable-other-error", step, f"undecodable file: parse_file raised {got[1]!r}")
                        return res
                    res.probes["decode_error_propagated"] += 1
                    res.event(step, label, "raised:UnicodeError", "")
                    continue
                # fault-free or only short/eintr: must equal parse_string of the decoded content
                wants = []
                for t in (simfs.universal_newlines(t_raw), t_raw):
                    if not wants or t != simfs.universal_newlines(t_raw):
                        wants.append(_outcome(lambda: EP.parse_string(t, **mk())))
                if got[0] == "raised" and isinstance(got[1], (OSError, UnicodeError)) and not isinstance(wants[0][1] if wants[0][0] == "raised" else None, type(got[1])):
                    soft = sorted({fk for _, fk in fired})
                    V("file-fault" if soft else "file-wrapper", "parse_file/error-" + type(got[1]).__name__ + ("-under-" + "+".join(soft) if soft else ""), step,
                      f"parse_file raised {got[1]!r} although the bytes decode as {enc} and only {soft or 'no'} faults were injected")
                    return res
                ok = False
                for w in wants:
                    if got[0] == w[0] and (got[0] == "raised" and type(got[1]) is type(w[1]) or got[0] == "ok" and fingerprint(got[1]) == fingerprint(w[1])):
                        ok = True
                        break
                if not ok:
                    soft = sorted({fk for _, fk in fired})
                    V("file-wrapper", "parse_file/differs-from-parse_string" + ("-under-" + "+".join(soft) if soft else ""), step,
                      f"parse_file({enc}) is not parse_string of the file's decoded content: "
                      f"{got[0]} {len(got[1].blocks) if got[0]=='ok' else got[1]!r} vs {wants[0][0]} {len(wants[0][1].blocks) if wants[0][0]=='ok' else wants[0][1]!r}; traces {_traces(got[1]) if got[0]=='ok' else ''} vs {_traces(wants[0][1]) if wants[0][0]=='ok' else ''}")
                    return res
                for _, fk in fired:
                    res.faults_eff[fk + "_read"] += 1   # the raw call was cut short / interrupted and had to be retried
                if any(s == 1 for s in sizes) and any(b > 127 for b in data):
                    res.probes["multibyte_split_across_raw_reads"] += 1
                if data.startswith((b"\xff\xfe", b"\xfe\xff")):
                    res.probes["utf16_bom"] += 1
                if b"\r" in data:
                    res.probes["cr_or_crlf_file"] += 1
                if got[0] == "ok":
                    libs.append(got[1])
                    res.nontrivial = True
                res.states.add(("parse_file", pattern(a), enc, tuple(sorted({fk for _, fk in fired})), got[0]))
                res.event(step, label, got[0], digest(fingerprint(got[1]), n=8) if got[0] == "ok" else type(got[1]).__name__)
                continue

            if kind in ("write_string", "write_file"):
                if not libs:
                    res.skipped += 1
                    res.event(step, kind, "skipped", "")
                    continue
                a = op["args"]
                both = a["full"] is not None and a["add"] is not None
                lib = libs[op["lib"] % len(libs)]
                twin = copy.deepcopy(lib)       # stacks may contain in-place middleware
                held_before = [id(b) for b in lib.blocks]
                f = None if op["fmt"] is None else fmts[op["fmt"] % len(fmts)]

                def explicit_text():
                    if a["full"] is not None:
                        st = build_stack(a["full"], "list")
                    else:
                        st = (build_stack(a["add"], "list") or []) + list(pristine_unparse)
                    return W.write(fold(st, twin), bibtex_format=f)

                if kind == "write_string":
                    watch = ArgWatch()
                    us_, pm_ = watch(build_stack(a["full"], a["kind"])), watch(build_stack(a["add"], a["kind"]))
                    got = _outcome(lambda: EP.write_string(lib, unparse_stack=us_, prepend_middleware=pm_, bibtex_format=f))
                    res.sim_steps += 1
                    bad = watch.disturbed()
                    if bad:
                        V("composition", "write_string/callers-argument-list-changed", step, bad)
                        return res
                    want = _outcome(explicit_text) if not both else None
                    label = "write_string(" + pattern(a) + ")"
                    c = compare(step, "write_string", got, want, both)
                    if c is False:
                        return res
                    if c is None:
                        if got[1] != want[1]:
                            V("composition", "write_string/" + ("given-stack" if a["full"] is not None else "prepend+default") + ":" + a["kind"], step,
                              f"{label} differs from the requested stack followed by the writer: {got[1][:200]!r} vs {want[1][:200]!r}")
                            return res
                        res.nontrivial = True
                    inplace_block_mw = any(d.get("ip") and d["k"] in ("tagb", "drop", "boom", "shipped", "again", "mark")
                                           for part in (a["full"], a["add"]) if part for d in part)
                    if [id(b) for b in lib.blocks] != held_before and not inplace_block_mw:
                        # with every middleware of the stack in copy mode, nothing may change WHICH blocks the caller's
                        # library holds (an in-place block middleware, by its documentation, may change the library directly)
                        V("composition", "write_string/callers-block-list-changed", step,
                          f"{label} changed which blocks the caller's library holds: {len(held_before)} -> {len(lib.blocks)} blocks")
                        return res
                    if not both and fingerprint(lib) != fingerprint(twin):
                        # whatever the stack did to the caller's library (in-place middleware, or a stack that
                        # raised half-way) is what the explicit composition does to an identical library
                        V("composition", "write_string/library-state/" + got[0], step,
                          f"{label} ({got[0]}) left the caller's library in another state than applying the same stack by hand does")
                        return res
                    res.states.add(("write_string", pattern(a), _classes(a), got[0]))
                    res.event(step, label, got[0], digest(got[1], n=8) if got[0] == "ok" else type(got[1]).__name__)
                    continue

                # ---- write_file
                tgt = op["target"]
                if both:
                    want = ("raised", ValueError("both"))
                else:
                    want = _outcome(explicit_text)      # (write_string == this composition is op family (a))
                pre_target = disk.get(tgt["path"]) if "path" in tgt and tgt["path"] in disk.files else None
                label = "write_file(" + ("path" if "path" in tgt else tgt["fileobj"]) + "," + pattern(a) + ")"
                fileobj = None
                if "path" in tgt:
                    target = tgt["path"]
                elif tgt["fileobj"] == "recording":
                    target = fileobj = Recording()
                else:
                    fileobj = disk.open("obj.bib", "w")
                    target = fileobj
                disk.arm(op["raw_faults"])
                got = _outcome(lambda: EP.write_file(target, lib, parse_stack=build_stack(a["full"], a["kind"]),
                                                     append_middleware=build_stack(a["add"], a["kind"]), bibtex_format=f))
                close_exc = None
                fileobj_closed = fileobj is not None and not isinstance(fileobj, Recording) and fileobj.closed
                if fileobj is not None and not isinstance(fileobj, Recording):
                    try:
                        fileobj.close()      # the caller owns the object: the caller flushes / closes it
                    except OSError as e:
                        close_exc = e
                fired = list(disk.fired)
                disk.disarm()
                res.sim_steps += 1
                for _, fk in fired:
                    res.faults[fk + "_write"] += 1
                hard = [fk for _, fk in fired if fk in ("eio", "enospc")]
                opened = [fk for c, fk in fired if c == "open"]
                if opened and "path" in tgt and not (want[0] == "raised" or both):
                    res.faults_eff["open_" + opened[0]] += 1
                    now = disk.get(tgt["path"]) if tgt["path"] in disk.files else None
                    if got[0] != "raised" or not isinstance(got[1], OSError):
                        V("file-fault", "write_file/open-error-not-propagated/" + opened[0], step,
                          f"opening the target failed ({opened[0].upper()}) but write_file {got[0]} {got[1] if got[0] == 'raised' else ''}")
                        return res
                    if now != pre_target:
                        V("file-fault", "write_file/target-changed-although-open-failed", step, "the target could not be opened, yet its content changed")
                        return res
                    res.probes["open_error_propagated_write"] += 1
                    res.event(step, label, "raised:open-" + opened[0], "")
                    continue
                if isinstance(fileobj, Recording) and fileobj.closed or (fileobj is not None and not isinstance(fileobj, Recording) and fileobj_closed):
                    V("file-wrapper", "write_file/closed-the-callers-file-object", step,
                      "write_file closed a file object that belongs to the caller (it cannot be read back, rewound or written to again)")
                    return res
                if want[0] == "raised" or both:
                    # no text was produced (both arguments given, or the stack itself fails): write_file must fail
                    # the same way, and since there is nothing to write the target must be as it was
                    if not both and (got[0] != "raised" or type(got[1]) is not type(want[1])):
                        V("file-wrapper", "write_file/stack-error-not-propagated", step, f"write_string raises {want[1]!r}, write_file: {got}")
                        return res
                    if "path" in tgt:
                        now = disk.get(tgt["path"]) if tgt["path"] in disk.files else None
                        if now != pre_target:
                            V("file-wrapper", "write_file/target-changed-although-no-text-was-produced", step,
                              f"write_string raises ({want[1]!r}), so there is no text to write, but the target file went from "
                              f"{None if pre_target is None else len(pre_target)} to {None if now is None else len(now)} bytes")
                            return res
                        res.probes["failed_write_left_target_untouched"] += 1
                    if both:
                        if compare(step, "write_file", got, None, True) is False:
                            return res
                        res.event(step, label, "both", "")
                        continue
                    res.event(step, label, "raised:" + type(got[1]).__name__, "")
                    continue
                text = want[1]
                if isinstance(fileobj, Recording):
                    if got[0] != "ok" or "".join(fileobj.chunks) != text:
                        V("file-wrapper", "write_file/fileobj-recording", step,
                          f"a caller-supplied file object did not receive exactly the text write_string returns ({got[0]}; {len(''.join(fileobj.chunks))} vs {len(text)} chars)")
                        return res
                    res.probes["fileobj_recording_exact"] += 1
                    res.nontrivial = True
                    res.event(step, label, "ok", digest(text, n=8))
                    continue
                path = tgt.get("path", "obj.bib")
                try:
                    expect = simfs.expected_written_bytes(text, cfg["locale"], cfg["platform_newline"])
                    enc_err = None
                except UnicodeError as e:
                    expect, enc_err = None, e
                # "writes exactly the text": the statement fixes neither the encoding nor the newline policy of a
                # path target, so besides what builtins.open(path, "w") does today (locale encoding, platform
                # newline) the untranslated text and UTF-8 (parse_file's documented default) are accepted too
                accept = {b""} if text == "" else set()     # an empty text may also be "written" by writing nothing at all
                for e_ in (cfg["locale"], "utf-8"):
                    for nl_ in (cfg["platform_newline"], "\n"):
                        try:
                            accept.add(simfs.expected_written_bytes(text, e_, nl_))
                        except UnicodeError:
                            pass
                on_disk = disk.get(path) if path in disk.files else None
                err = got[1] if got[0] == "raised" else close_exc
                if enc_err is not None and err is None and "path" in tgt and on_disk in accept:
                    enc_err = None          # written as UTF-8 although the locale cannot encode it: exact text, accepted
                    expect = on_disk
                if enc_err is not None and err is not None and hard and isinstance(err, OSError) and err.errno in (errno.EIO, errno.ENOSPC):
                    enc_err = None          # written in an encoding that can hold the text; the injected device error came first (handled below)
                if enc_err is not None:
                    if err is None or not isinstance(err, UnicodeError):
                        V("file-wrapper", "write_file/unencodable-accepted", step,
                          f"the text cannot be encoded in the locale encoding {cfg['locale']} but write_file reported success ({err!r})")
                        return res
                    res.probes["locale_unencodable_propagated"] += 1
                    res.event(step, label, "raised:UnicodeError", "")
                    continue
                if err is not None:
                    if not hard:
                        soft = sorted({fk for _, fk in fired})
                        V("file-fault" if soft else "file-wrapper", "write_file/error-" + type(err).__name__ + ("-under-" + "+".join(soft) if soft else ""), step,
                          f"write_file raised {err!r} although only {soft or 'no'} faults were injected")
                        return res
                    if not isinstance(err, OSError) or err.errno not in (errno.EIO, errno.ENOSPC):
                        V("file-fault", "write_file/other-error-under-" + hard[0], step, f"injected {hard}, write_file raised {err!r}")
                        return res
                    for fk in hard:
                        res.faults_eff[fk + "_write"] += 1
                    res.probes[hard[0] + "_write_propagated"] += 1
                    res.states.add(("write_file", pattern(a), "path" in tgt, tuple(hard)))
                    res.event(step, label, "raised:OSError", "")
                    continue
                # reported success: the bytes must be exact (also under short/eintr, also with a hard fault that fired)
                if on_disk != expect and not ("path" in tgt and on_disk in accept):
                    soft = sorted({fk for _, fk in fired})
                    i = next((i for i in range(min(len(on_disk or b""), len(expect))) if (on_disk or b"")[i] != expect[i]), min(len(on_disk or b""), len(expect)))
                    what = "tail-of-previous-file-retained" if on_disk is not None and on_disk.startswith(expect) and len(on_disk) > len(expect) else \
                        ("prefix-of-previous-file-retained" if on_disk is not None and on_disk.endswith(expect) and len(on_disk) > len(expect) else "bytes-differ")
                    V("file-fault" if hard else "file-wrapper", "write_file/" + what + ("-under-" + "+".join(soft) if soft else ""), step,
                      f"write_file reported success but the device holds {len(on_disk or b'')} bytes, write_string's text encodes to {len(expect)} "
                      f"(locale {cfg['locale']}, newline {cfg['platform_newline']!r}); first difference at byte {i}: {(on_disk or b'')[max(0,i-20):i+20]!r} vs {expect[max(0,i-20):i+20]!r}")
                    return res
                for _, fk in fired:
                    res.faults_eff[fk + "_write"] += 1
                if any(fk == "eintr" for _, fk in fired):
                    res.probes["eintr_inside_write"] += 1
                if any(fk == "short" for _, fk in fired):
                    res.probes["short_write_retried"] += 1
                if fingerprint(lib) != fingerprint(twin):
                    V("file-wrapper", "write_file/library-state-differs", step, "write_file left the library in another state than write_string does")
                    return res
                res.nontrivial = True
                res.states.add(("write_file", pattern(a), "path" in tgt, tuple(sorted({fk for _, fk in fired})), "ok"))
                res.event(step, label, "ok", digest(expect, n=8))
                continue

            if kind == "block_mw":
                rets = op["returns"]
                via = op["via"]
                if via == "transform" or via == "unparse_stack":
                    if not libs:
                        res.skipped += 1
                        res.event(step, kind, "skipped", "")
                        continue
                    src = copy.deepcopy(libs[op["lib"] % len(libs)])
                else:
                    src = SP.Splitter(cfg["docs"][op["doc"] % len(cfg["docs"])]["text"]).split()
                probe = Protocol(rets)
                n_src = len(src.blocks)       # (an in-place block middleware may restructure the library it was given)
                if via == "transform":
                    got = _outcome(lambda: probe.transform(src))
                elif via == "parse_stack":
                    text = cfg["docs"][op["doc"] % len(cfg["docs"])]["text"]
                    got = _outcome(lambda: EP.parse_string(text, parse_stack=[probe]))
                else:
                    class Captured(Exception):
                        pass

                    class Capture(mwbase.LibraryMiddleware):
                        def transform(self, library):
                            raise Captured(library)     # stop before the writer: only the stack is under test here
                    got = _outcome(lambda: EP.write_string(src, unparse_stack=[probe, Capture()]))
                    if got[0] == "raised" and isinstance(got[1], Captured):
                        got = ("ok", got[1].args[0])
                    elif got[0] == "ok":
                        got = ("raised", RuntimeError("second middleware of the unparse stack was not reached"))
                res.sim_steps += 1
                invalid = [k for (_, k, exp) in probe.log if exp is None]
                used = sorted({k for (_, k, _) in probe.log})
                for k in used:
                    res.probes["returns_" + k] += 1
                label = "block_mw:" + via
                if invalid:
                    if got[0] != "raised" or not isinstance(got[1], TypeError):
                        V("protocol", f"non-block-result-accepted/{invalid[0]}", step,
                          f"a block middleware returned a non-block result ({invalid[0]}) but transform {got[0]} {got[1] if got[0]=='raised' else ''} instead of raising TypeError")
                        return res
                    res.event(step, label, "TypeError", "")
                    res.states.add(("block_mw", via, tuple(used), "TypeError"))
                    continue
                gen_used = any(k == "gen" for (_, k, _) in probe.log)
                if got[0] == "raised":
                    if gen_used and isinstance(got[1], TypeError):
                        res.probes["generator_result_rejected"] += 1   # accepted reading: a generator is not a collection
                        res.event(step, label, "TypeError(gen)", "")
                        continue
                    V("protocol", "valid-result-rejected/" + "+".join(used), step, f"all per-block results were valid ({used}) but transform raised {got[1]!r}")
                    return res
                out = got[1]
                expected = [b for (_, _, exp) in probe.log for b in exp]
                real = [b.ignore_error_block if (isinstance(b, M.DuplicateBlockKeyBlock) and not any(b is e for e in expected)) else b for b in out.blocks]
                if len(real) != len(expected) or any(r is not e for r, e in zip(real, expected)):
                    V("protocol", "splice/" + "+".join(used), step,
                      f"output blocks are not the in-order splice of the per-block results: got {[type(b).__name__ for b in out.blocks]}, "
                      f"expected {[type(b).__name__ for b in expected]}")
                    return res
                # the output of a stack is a Library like any other: its views must be consistent with its blocks
                from .lib import view_invariants
                try:
                    bad_views = view_invariants(out)
                except Exception as e:  # noqa
                    bad_views = [("unreadable", str(e))]
                if bad_views:
                    V("protocol", "output-library-inconsistent/" + bad_views[0][0], step,
                      f"the library a block middleware's results were put into is inconsistent: {bad_views[0][1]}")
                    return res
                if len(probe.log) != n_src and via != "parse_stack":
                    V("protocol", "not-every-block-visited", step, f"transform_block was called {len(probe.log)} times for {n_src} blocks")
                    return res
                res.nontrivial = True
                res.states.add(("block_mw", via, tuple(used), "ok"))
                res.event(step, label, "ok", str(len(expected)))
                continue
            raise ValueError(kind)
    return res


def rng_free_coin(step, text):
    """A deterministic 'coin' that needs no PRNG at run time."""
    return (step + len(text)) % 3 == 0


def _traces(lib):
    try:
        return [e.fields_dict["trace"].value if "trace" in e.fields_dict else None for e in lib.entries][:4]
    except Exception:
        return "?"


def _classes(a):
    out = []
    for part in (a["full"], a["add"]):
        out.append(None if part is None else tuple(d["k"] + (str(d.get("i", "")) if d["k"] == "shipped" else "") for d in part))
    return tuple(out)
