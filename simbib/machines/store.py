"""M-STORE (C01, C03, C04, C05): a bibliography store.  One client holds Library
objects in memory; documents live on a simulated disk; storage faults damage the
stored bytes between API calls; restart drops all memory.  See DESIGN.md 2.3, 3.

ops:  seed / fault / load / save / restart / splice   (all data, no PRNG at run time)
"""
import sys

from .. import docgen, faults, simfs
from ..engine import RunResult
from ..fingerprint import hexdigest_of
from ..repo import REPO
from ..repo import bexc
from ..repo import entrypoint as EP
from ..repo import model as M
from ..repo import mwbase
from ..repo import mws
from ..repo import splitter as SP
from ..repo import writer as W

NAME = "store"
PROPS = ("C01", "C03", "C04", "C05")

ENCODINGS = ["utf-8", "utf-8", "utf-8", "utf-8", "latin-1", "utf-16", "gbk"]
INDENTS = ["\t", " ", "  ", "", "    "]
VCOLS = [0, 0, 5, 12, 20, 40, "auto"]
SEPS = ["\n\n", "\n\n", "\n", "", " ", "\n\n\n", "\n \n"]

TRACE_MAX_CHARS = 250_000           # sampled tracing of larger texts costs minutes; those rely on the watchdog + traced re-run
K_LINE, C_LINE = 200, 20000        # deterministic step budget: line events <= K*len(text)+C


class StepBudgetExceeded(BaseException):
    pass


import contextlib as _contextlib


@_contextlib.contextmanager
def _undo(tampered):
    """Whatever the run did to lists it obtained from the library is undone afterwards: if the library
    handed out shared state (which is the defect the tampering is there to expose), the next run must
    still start from a clean process."""
    try:
        yield
    finally:
        for lst, saved in tampered:
            lst[:] = saved


class Raising(mwbase.BlockMiddleware):
    """A caller's own middleware that refuses every entry (used to pollute lists the caller obtained,
    and as a stack that fails half-way)."""

    def __init__(self):
        super().__init__(allow_inplace_modification=True, allow_parallel_execution=True)

    def transform_entry(self, entry, library):
        raise RuntimeError("caller's middleware refuses entries")

    def transform_implicit_comment(self, c, library):
        raise RuntimeError("caller's middleware refuses comments")


# ------------------------------------------------------------------ generation


def draw_format(rng):
    return {"indent": rng.choice(INDENTS), "value_column": rng.choice(VCOLS),
            "trailing_comma": rng.random() < 0.5, "block_separator": rng.choice(SEPS)}


def mk_format(f):
    if f is None:
        return None
    b = W.BibtexFormat()
    b.indent = f["indent"]
    b.value_column = f["value_column"]
    b.trailing_comma = f["trailing_comma"]
    b.block_separator = f["block_separator"]
    return b


def _encodable(text, enc):
    try:
        text.encode(enc)
        return True
    except UnicodeError:
        return False


def _doc(rng, tier, enc, **over):
    kn = docgen.draw_knobs(rng, tier, enc)
    kn.update(over)
    d = docgen.make_doc(rng, kn)
    if not _encodable(d["text"], enc):
        kn["nonascii"] = "none"
        d = docgen.make_doc(rng, kn)
    return d


def _slim(d):
    """Document as stored in the run: text + block spans/kinds + per-field facts."""
    return {"text": d["text"],
            "blocks": [{"kind": b["kind"], "span": b["span"],
                        "fields": [[f["key"], f["eq_pos"], f["same_line"]] for f in b.get("fields", [])] if b["kind"] == "entry" else None}
                       for b in d["blocks"]]}


def generate(rng, tier, prop):
    enc = rng.choice(ENCODINGS)
    cfg = {"encoding": enc, "platform_newline": rng.choice(["\n", "\n", "\r\n"]),
           "buffer": rng.choice([1, 2, 7, 64, 8192]), "sector": rng.choice([4, 16, 64, 512]),
           "docs": [], "formats": [draw_format(rng) for _ in range(3)], "trace": rng.random() < 0.06}
    ops = []
    if prop in ("C01", "C03"):
        r = rng.random()
        via = "string" if prop == "C03" else rng.choice(["file", "string"])
        big_p = 0.12 if tier == "quick" else 0.10
        if r < big_p:
            fam = rng.choice(docgen.BIG_FAMILIES)
            if tier == "quick":
                scale = rng.choice([50, 300, 1200, 3000])
                if fam == "long_runs" and rng.random() < 0.3:
                    scale = rng.choice([30_000, 100_000])     # a quadratic scan inside the regex engine only shows at this size
            else:
                scale = rng.choice([300, 1200, 1200, 3000, 3000, 10_000, 10_000, 30_000, 30_000, 100_000])
            if fam in ("deep_nesting", "deep_unclosed", "deep_nesting_blocks", "deep_quote_nesting"):
                scale = min(scale, 20_000)
            cfg["docs"].append({"big": fam, "scale": scale, "seed": rng.randrange(1 << 30)})
            cfg["encoding"] = enc = "utf-8"
            ops.append({"op": "seed", "path": "a.bib", "doc": 0, "writer": "foreign"})
            if rng.random() < 0.4:
                ops.append(dict(faults.draw(rng), op="fault", path="a.bib"))
            cfg["trace"] = cfg["trace"] or rng.random() < 0.3
        elif r < big_p + 0.1:
            n = rng.choice([5, 20, 80, 300])
            cfg["docs"].append({"text": docgen.big_doc(rng, "mark_soup", n), "blocks": []})
            ops.append({"op": "seed", "path": "a.bib", "doc": 0, "writer": "foreign"})
        else:
            cfg["docs"].append(_slim(_doc(rng, tier, enc, collide=rng.random() < 0.2)))
            cfg["docs"].append(_slim(_doc(rng, tier, enc)))
            writer = rng.choice(["foreign", "foreign", "library"])
            ops.append({"op": "seed", "path": "a.bib", "doc": 0, "writer": writer, "fmt": rng.randrange(3)})
            nf = rng.choice([0, 1, 1, 1, 2, 3])
            for _ in range(nf):
                ops.append(dict(faults.draw(rng), op="fault", path="a.bib", other=1))
        cfg["log"] = "debug" if rng.random() < 0.15 else None
        if rng.random() < 0.12:
            ops.append({"op": "tamper_defaults", "how": rng.choice(["raising", "clear", "raising"])})
        ops.append({"op": "load", "path": "a.bib", "stack": rng.choice(["default", "none"]), "via": via})
        if len(cfg["docs"]) > 1 and "text" in cfg["docs"][1] and rng.random() < 0.3:
            # a second document is parsed into the library the first call returned
            ops.append({"op": "seed", "path": "c.bib", "doc": rng.choice([0, 1]), "writer": "foreign"})
            if rng.random() < 0.5:
                ops.append(dict(faults.draw(rng), op="fault", path="c.bib", other=1))
            ops.append({"op": "load_into", "path": "c.bib", "stack": rng.choice(["default", "none", "raising"])})
        # (value_column alignment pads EVERY field to the longest key: on a size-scaled document whose damage produced
        #  one enormous "key" that is fields x key-length characters of output - gigabytes - and says nothing about C01)
        giant = any("big" in d and d.get("scale", 0) >= 10_000 for d in cfg["docs"])
        ops.append({"op": "save", "path": "b.bib", "fmt": None if giant else rng.choice([None, 0, 1, 2]), "how": "string"})
        ops.append({"op": "load", "path": "b.bib", "stack": rng.choice(["default", "none"]), "via": via})
        if rng.random() < 0.3:
            ops.append(dict(faults.draw(rng), op="fault", path="b.bib", other=1))
            ops.append({"op": "load", "path": "b.bib", "stack": "default", "via": via})
    elif prop == "C04":
        cfg["encoding"] = enc = rng.choice(["utf-8", "utf-8", "latin-1"])
        d1 = _doc(rng, tier, enc, nblocks=rng.choice([0, 1, 2, 4]))
        mid = _doc(rng, tier, enc, nblocks=rng.choice([1, 1, 2, 3]), collide=rng.random() < 0.3)
        d2 = _doc(rng, tier, enc, nblocks=rng.choice([1, 2, 4, 6]))
        oth = _doc(rng, tier, enc, nblocks=2)
        cfg["docs"] = [_slim(d1), _slim(mid), _slim(d2), _slim(oth)]
        nf = rng.choice([0, 1, 1, 1, 1, 2])
        fl = []
        for _ in range(nf):
            f = faults.draw(rng, [k for k in faults.KINDS if k not in ("crlf_rewrite", "bom")])
            fl.append(f)
        if rng.random() < 0.12:
            # concatenation of a document with itself: every keyed block repeats character for character
            fl = []
            which = rng.choice(["mid=d2", "d1=d2", "all"])
            src = _slim(d2)
            cfg["docs"][1] = src
            if which != "mid=d2":
                cfg["docs"][0] = src
            if which == "d1=d2":
                cfg["docs"][1] = _slim(_doc(rng, tier, enc, nblocks=0))
        raw_rep = 1
        if rng.random() < 0.08:
            raw_rep = rng.choice([3, 60, 200])      # long runs of broken blocks with nothing good in between
        if rng.random() < 0.1:
            # the middle document is a copy of the suffix, cut off somewhere (crash while appending a second copy)
            cfg["docs"][1] = _slim(d2)
            fl = [dict(faults.draw(rng, ["torn_write"]), fill=rng.choice(["cut", "cut", "zero_sector"]))]
        ops.append({"op": "splice", "d1": 0, "mid": 1, "d2": 2, "other": 3, "faults": fl, "raw_rep": raw_rep,
                    "glue": rng.choice(["\n", "\n", "\n\n", "", " \n"]),
                    "raw_x": (rng.choice([None, None, None, None, 0, 1, 2, 3, 4, 5, 6, 7, 8, 9, 10, 11]) if fl or rng.random() < 0.5 else None) if raw_rep == 1 else rng.randrange(12),
                    "end_newline": rng.random() < 0.7,
                    "no_d2": rng.random() < 0.25})
    elif prop == "C05":
        if rng.random() < (0.004 if tier == "quick" else 0.03):
            # size swarm: libraries of several hundred to a few thousand blocks (thresholds, batching, parallel paths)
            cfg["docs"].append(_slim(_doc(rng, tier, enc, nblocks=rng.choice([520, 700, 1500]), maxfields=2, multiline=0.0, nest=1)))
        else:
            cfg["docs"].append(_slim(_doc(rng, tier, enc)))
        writer = rng.choice(["foreign", "foreign", "library"])
        ops.append({"op": "seed", "path": "a.bib", "doc": 0, "writer": writer, "fmt": rng.randrange(3)})
        if rng.random() < 0.25:
            ops.append({"op": "fault", "kind": "crlf_rewrite", "path": "a.bib", "at": 0, "len": 0})
        if rng.random() < 0.1:
            ops.append({"op": "tamper_defaults", "how": rng.choice(["clear", "raising"])})
        # a quarter of the runs keep the text in memory (parse_string / write_string, the statement's own terms):
        # no text layer in between, so CR LF line ends reach the parser and must come back from the writer
        mode = "string" if rng.random() < 0.25 else "file"
        ops.append({"op": "load", "path": "a.bib", "stack": "default", "via": mode})
        for c in range(rng.randint(1, 4)):
            f = rng.choice([None, 0, 1, 2])
            p = rng.choice(["a.bib", "b.bib", "c.bib"])
            if rng.random() < 0.3:
                ops.append({"op": "plant", "path": p})   # a longer pre-existing file at the target
            ops.append({"op": "save", "path": p, "fmt": f, "how": mode, "target": rng.choice(["path", "path", "fileobj", "stringio"])})
            ops.append({"op": "restart"})
            ops.append({"op": "load", "path": p, "stack": "default", "via": mode})
            ops.append({"op": "save", "path": "again.bib", "fmt": f, "how": mode})
    else:
        raise ValueError(prop)
    return {"config": cfg, "ops": ops}


RAW_X = [
    "@article{broken, title = {unclosed\n",
    "garbage } } } text\n",
    '@string{s = "open quote\n',
    "@comment{ never closed {{\n",
    "@article{k, a = {x}, b \n",
    '@article{q, t = "a {b" c}\n',
    "}}}} @@@ ,,, === \"\n",
    "@preamble{ \"x\" # {y\n@",
    "@string{foo",
    "@string{",
    "@article{k",
    "@article{k,\n  title = {T},\n  title = {again}\n}\n@article{k2, a = {1}, a = {2}}",
]


# ------------------------------------------------------------------ helpers


def content(b):
    """Canonical content without position data."""
    if isinstance(b, M.DuplicateBlockKeyBlock):
        return ("dupkey", b.key, content(b.ignore_error_block))
    if isinstance(b, M.DuplicateFieldKeyBlock):
        return ("dupfield", tuple(sorted(b.duplicate_keys)), content(b.ignore_error_block))
    if isinstance(b, M.ParsingFailedBlock):
        inner = b.ignore_error_block
        return ("failed", type(b).__name__, type(b.error).__name__, b.raw, content(inner) if inner is not None else None)
    if isinstance(b, M.Entry):
        return ("entry", b.entry_type, b.key, tuple((f.key, _val(f.value)) for f in b.fields))
    if isinstance(b, M.String):
        return ("string", b.key, _val(b.value))
    if isinstance(b, M.Preamble):
        return ("preamble", _val(b.value))
    if isinstance(b, M.ExplicitComment):
        return ("xcomment", b.comment)
    if isinstance(b, M.ImplicitComment):
        return ("icomment", b.comment)
    return ("unknown", type(b).__name__)


def _val(v):
    return v if isinstance(v, (str, int)) or v is None else repr(v)


def unwrap_dup(b):
    while isinstance(b, M.DuplicateBlockKeyBlock) and b.ignore_error_block is not None:
        b = b.ignore_error_block
    return b


_PKG = None


def traced(fn, budget):
    """Run fn() counting line events inside bibtexparser; raise StepBudgetExceeded past budget."""
    global _PKG
    if _PKG is None:
        _PKG = REPO + "/bibtexparser"
    count = [0]
    pkg = _PKG

    def local(frame, event, arg):
        if event == "line":
            count[0] += 1
            if count[0] > budget:
                raise StepBudgetExceeded()
        return local

    def tracer(frame, event, arg):
        if frame.f_code.co_filename.startswith(pkg):
            return local
        return None

    old = sys.gettrace()
    sys.settrace(tracer)
    try:
        return fn(), count[0]
    finally:
        sys.settrace(old)


def lenient_decode(data, enc):
    try:
        return data.decode(enc), True
    except UnicodeError:
        return data.decode(enc, "replace"), False


def abort_class(b):
    e = getattr(b, "error", None)
    r = getattr(e, "abort_reason", None)
    if not isinstance(r, str):
        return type(e).__name__
    for tag, needle in (("eof", "end of file"), ("unexpected-block-start", "Unexpected block start"),
                        ("expected-equals", "Expected a `=`"), ("expected-comma-or-close", "Expected either"),
                        ("expected-comma-after-key", "Expected comma after entry key"),
                        ("expected-equals-after-string-key", "Expected equals sign")):
        if needle in r:
            return tag
    return "other-abort"


# ------------------------------------------------------------------ oracles


def tiling(text, blocks):
    """C03 conservation.  Returns (violation or None, offsets) with violation =
    (clause, detail, block index); offsets[k] = offset of block k's raw.

    Greedy left-to-right placement at the first occurrence at or after the end
    of the previous raw is exact for this oracle: an earlier end never hurts a
    later block, and a later occurrence only widens the gap that must be blank.
    Only the first violation is reported (everything after it is noise)."""
    offs = []
    end = 0
    prev_start = 0
    for k, b in enumerate(blocks):
        raw = b.raw
        if not isinstance(raw, str):
            return ("no-raw", f"block {k} ({type(b).__name__}) has raw={raw!r}", k), offs
        if raw == "":
            offs.append(end)
            continue
        o = text.find(raw, end)
        gap = text[end:o] if o >= 0 else None
        if o < 0 or gap.strip() != "":
            if raw not in text:
                return ("not-in-source", f"raw of block {k} {raw[:60]!r} is not a substring of the input", k), offs
            p = text.find(raw, prev_start)
            if 0 <= p < end:
                return ("overlap", f"raw of block {k} {raw[:50]!r} starts at offset {p}, inside the previous block's raw which ends at {end} "
                                   f"(shared text {text[p:end][:40]!r})", k), offs
            if o < 0:
                return ("order", f"raw of block {k} {raw[:60]!r} occurs only before the end of the previous raw ({end})", k), offs
            return ("dropped", f"input characters {gap.strip()[:60]!r} between offsets {end} and {o} belong to no block's raw", k), offs
        offs.append(o)
        prev_start = o
        end = o + len(raw)
    tail = text[end:]
    if tail.strip() != "":
        return ("dropped", f"input characters {tail.strip()[:60]!r} after offset {end} belong to no block's raw", len(blocks)), offs
    return None, offs


# ------------------------------------------------------------------ execution


class Ctx:
    pass


def _materialise(cfg):
    docs = []
    for d in cfg["docs"]:
        if "big" in d:
            import random
            docs.append({"text": docgen.big_doc(random.Random(d["seed"]), d["big"], d["scale"]), "blocks": []})
        else:
            docs.append(d)
    return docs


def execute(run, props, force_trace=False):
    res = RunResult()
    cfg = run["config"]
    enc = cfg["encoding"]
    disk = simfs.SimDisk(locale=enc, platform_newline=cfg["platform_newline"], buffer_size=cfg["buffer"])
    docs = _materialise(cfg)
    fmts = [mk_format(f) for f in cfg["formats"]]
    trace = bool(cfg.get("trace")) or force_trace
    prop = props[0]
    mem = {"lib": None, "text": None, "clean": None, "first_content": None}
    prev_bytes = {}
    saved = {}        # path -> (fmt index, bytes, content list) of the last save
    c05 = {"before": None, "fmt": "unset", "bytes": None}

    def V(p, clause, sig, step, msg):
        res.violate(p, clause, f"{p}/{clause}/{sig}", step, msg)

    def guarded(step, what, fn, text_len):
        """C01: nothing may escape.  Returns (ok, value)."""
        try:
            if trace and (text_len <= TRACE_MAX_CHARS or force_trace):
                val, n = traced(fn, K_LINE * max(text_len, 1) + C_LINE)
                res.probes["traced_calls"] += 1
                return True, val
            return True, fn()
        except StepBudgetExceeded:
            if prop == "C01":
                V("C01", "hang", what, step, f"{what} executed more than {K_LINE}*{text_len}+{C_LINE} source lines inside bibtexparser (step budget; linear cost expected)")
            else:
                res.precondition_miss += 1
            return False, None
        except RecursionError as e:
            if prop == "C01":
                V("C01", "exception", f"{what}/RecursionError", step, f"{what} raised RecursionError on a text of {text_len} characters: {str(e)[:100]}")
            else:
                res.precondition_miss += 1
            return False, None
        except Exception as e:  # noqa
            if prop == "C01":
                V("C01", "exception", f"{what}/{type(e).__name__}", step, f"{what} raised {type(e).__name__}: {str(e)[:300]}")
            else:
                res.precondition_miss += 1   # an escaping exception is C01's matter
            return False, None

    import contextlib
    import logging

    @contextlib.contextmanager
    def logging_as_configured():
        # a host application may have switched logging on before it calls the library
        if cfg.get("log") != "debug":
            yield
            return
        lg = logging.getLogger("bibtexparser")
        old = (logging.root.manager.disable, lg.level, lg.propagate, list(lg.handlers))
        logging.disable(logging.NOTSET)
        lg.setLevel(logging.DEBUG)
        lg.propagate = False
        lg.handlers = [logging.NullHandler()]
        res.probes["logging_enabled_at_debug"] += 1
        try:
            yield
        finally:
            logging.disable(old[0])
            lg.setLevel(old[1])
            lg.propagate = old[2]
            lg.handlers = old[3]

    tampered = []   # (list object, its original content): undone at the end so that runs stay independent
    with simfs.installed(disk), logging_as_configured(), _undo(tampered):
        for step, op in enumerate(run["ops"]):
            kind = op["op"]
            if kind == "tamper_defaults":
                # the caller asks for the default stacks through the public accessors and edits the lists it got
                try:
                    ps, us = mws.default_parse_stack(), mws.default_unparse_stack()
                    tampered.append((ps, list(ps)))
                    tampered.append((us, list(us)))
                    if op["how"] == "clear":
                        ps.clear()
                        us.clear()
                    else:
                        ps.insert(0, Raising())
                        us.append(Raising())
                    res.probes["caller_edited_its_copy_of_default_stacks"] += 1
                except Exception:
                    pass
                res.nops += 1
                res.event(step, "tamper_defaults", op["how"], "")
                continue
            if kind == "load_into":
                _load_into(res, op, step, disk, enc, mem, prop, V, guarded)
                if res.violations:
                    return res
                continue
            if kind == "seed":
                d = docs[op["doc"] % len(docs)]
                text = d["text"]
                if op.get("writer") == "library" and "blocks" in d and d["blocks"]:
                    ok, lib = guarded(step, "parse_string", lambda: EP.parse_string(text), len(text))
                    if not ok:
                        return res
                    f = fmts[op.get("fmt", 0) % len(fmts)]
                    ok, out = guarded(step, "write_string", lambda: EP.write_string(lib, bibtex_format=f), len(text))
                    if not ok:
                        return res
                    text = out
                    mem["seed_spans"] = None
                else:
                    mem["seed_spans"] = d.get("blocks")
                try:
                    data = text.encode(enc)
                except UnicodeError:
                    data = text.encode(enc, "replace")
                    mem["seed_spans"] = None
                prev_bytes[op["path"]] = disk.files.get(op["path"], b"")
                disk.put(op["path"], data)
                mem["clean"] = True
                res.sim_steps += 1
                res.nops += 1
                res.event(step, "seed", str(op.get("writer")) + ":" + hexdigest_of(data, 8), "")

            elif kind == "plant":
                disk.put(op["path"], ("% pre-existing longer file\n" * 400).encode(enc))
                res.nops += 1
                res.probes["preexisting_longer_file"] += 1
                res.event(step, "plant", "", "")

            elif kind == "fault":
                p = op["path"]
                if p not in disk.files:
                    res.skipped += 1
                    res.event(step, "fault", "skipped", "")
                    continue
                before = disk.get(p)
                other = docs[op.get("other", 0) % len(docs)]["text"].encode(enc, "replace") if docs else b""
                if op["kind"] == "crlf_rewrite":
                    # a transport that rewrites line ends works on characters, not bytes (utf-16!)
                    try:
                        t = before.decode(enc)
                        new = t.replace("\r\n", "\n").replace("\n", "\r\n").encode(enc)
                    except UnicodeError:
                        new = before
                else:
                    new, rng_ = faults.apply(before, op, cfg["sector"], prev=bytes(prev_bytes.get(p, b"")), other=other)
                disk.put(p, new)
                res.faults[op["kind"]] += 1
                if new != before:
                    res.faults_eff[op["kind"]] += 1
                    mem["clean"] = False
                    mem["seed_spans"] = None
                    res.nontrivial = True
                res.nops += 1
                res.event(step, "fault", op["kind"] + ":" + hexdigest_of(new, 8), "")

            elif kind == "restart":
                mem["lib"] = None
                mem["text"] = None
                res.nops += 1
                res.event(step, "restart", "", "")

            elif kind == "load":
                p = op["path"]
                if p not in disk.files:
                    res.skipped += 1
                    res.event(step, "load", "skipped", "")
                    continue
                data = disk.get(p)
                text, decodable = lenient_decode(data, enc)
                stack = None if op["stack"] == "default" else []
                via = op["via"] if decodable else "string"
                if not decodable:
                    res.probes["undecodable_bytes_lenient_client"] += 1
                if via == "file":
                    # the decoder of the io layer may be stricter than bytes.decode (utf-16 without BOM):
                    # a decode error is the io layer's answer (C20), the lenient client then hands over the text itself
                    def _pf():
                        try:
                            return EP.parse_file(p, parse_stack=stack, encoding=enc)
                        except UnicodeError:
                            res.probes["parse_file_decode_error_fallback"] += 1
                            return EP.parse_string(simfs.universal_newlines(text), parse_stack=stack)
                    seen = simfs.universal_newlines(text)
                    ok, lib = guarded(step, "parse_file", _pf, len(text))
                else:
                    seen = text
                    ok, lib = guarded(step, "parse_string", lambda: EP.parse_string(text, parse_stack=stack), len(text))
                res.sim_steps += 1
                res.nops += 1
                if not ok:
                    return res
                mem["lib"], mem["text"] = lib, seen
                res.artifacts["last_text"] = text
                res.artifacts["last_load"] = op
                blocks = lib.blocks
                fb = [b for b in blocks if isinstance(b, M.ParsingFailedBlock)]
                sig = tuple(type(b).__name__[:4] for b in blocks[:12]) + tuple(sorted({abort_class(b) for b in fb}))
                res.states.add(sig)
                for b in fb:
                    res.probes["abort:" + abort_class(b)] += 1
                if fb:
                    res.nontrivial = True
                if "\r\n" in seen:
                    res.probes["crlf_seen_by_parser"] += 1
                if "\\\n" in seen:
                    res.probes["backslash_newline"] += 1
                if len(seen) > 50_000:
                    res.probes["large_document"] += 1
                if "\n" * 1000 in seen or seen.count("\n") > 3000:
                    res.probes["many_newlines"] += 1

                if prop == "C01":
                    if not isinstance(lib, EP.Library):
                        V("C01", "result", "not-a-library", step, f"parse returned {type(lib).__name__}")
                        return res
                    for k, b in enumerate(fb):
                        if b.error is None or not isinstance(b.raw, str):
                            V("C01", "failed-block", "missing-error-or-raw", step,
                              f"failed block {k} ({type(b).__name__}) has error={b.error!r}, raw={type(b.raw).__name__}")
                            return res
                    ids = {id(b) for b in blocks}
                    if any(id(b) not in ids for b in lib.failed_blocks):
                        V("C01", "failed-block", "not-in-blocks", step, "failed_blocks is not a subset of blocks")
                        return res

                if prop == "C03":
                    viol, offs = tiling(seen, blocks)
                    if viol is not None:
                        clause, detail, k = viol
                        near = "none"
                        for j in (k, k - 1, k - 2):
                            if 0 <= j < len(blocks) and isinstance(blocks[j], M.ParsingFailedBlock) and not isinstance(
                                    blocks[j], (M.DuplicateBlockKeyBlock, M.DuplicateFieldKeyBlock)):
                                near = ("self:" if j == k else "after:") + abort_class(blocks[j])
                                break
                        V("C03", clause, near, step, detail)
                        return res
                    for k, (b, o) in enumerate(zip(blocks, offs)):
                        if o is None or b.raw == "":
                            continue
                        want = seen[:o].count("\n")
                        if b.start_line != want:
                            bs = "backslash-newline-before" if "\\\n" in seen[:o] else "plain"
                            V("C03", "line", f"block-start/{bs}", step,
                              f"block {k} ({type(b).__name__}) reports start_line {b.start_line}, its raw starts on 0-based line {want}")
                            return res
                    spans = mem.get("seed_spans")
                    if spans is not None and mem["clean"] and len(spans) == len(blocks):
                        for b, g in zip(blocks, spans):
                            if g["kind"] != "entry" or not isinstance(b, M.Entry) or len(b.fields) != len(g["fields"]):
                                continue
                            for f, (fk, eq_pos, same) in zip(b.fields, g["fields"]):
                                if same and f.key == fk:
                                    want = seen[:eq_pos].count("\n")
                                    res.probes["field_line_checked"] += 1
                                    if f.start_line != want:
                                        bs = "backslash-newline-before" if "\\\n" in seen[:eq_pos] else "plain"
                                        V("C03", "line", f"field/{bs}", step,
                                          f"field {fk!r} of entry {b.key!r} reports line {f.start_line}; key and '=' are on 0-based line {want}")
                                        return res

                if prop == "C05":
                    cont = [content(b) for b in blocks]
                    if c05["before"] is None:
                        # the workload's entry and string keys are pairwise distinct (exactly; some differ in case only),
                        # so a duplicate-key block is the library's doing and the round trip is judged all the same;
                        # any other failed block means the workload left the property's domain: discarded, counted
                        if any(not isinstance(b, M.DuplicateBlockKeyBlock) for b in fb):
                            res.precondition_miss += 1
                            res.event(step, "load", "precondition-miss", "")
                            return res
                        if fb:
                            V("C05", "content", "duplicate-key-block-for-distinct-keys", step,
                              f"the document's keys are pairwise distinct but the first load holds a duplicate-key block for {fb[0].key!r}: "
                              f"written back it becomes a warning comment plus raw text, so the re-parsed block sequence cannot equal the first")
                            return res
                        res.nontrivial = True
                    else:
                        if cont != c05["before"]:
                            a, b_ = c05["before"], cont
                            i = next((i for i in range(min(len(a), len(b_))) if a[i] != b_[i]), min(len(a), len(b_)))
                            what = "failed-block-appeared" if fb else ("block-count" if len(a) != len(b_) else (a[i][0] if i < len(a) else "tail"))
                            V("C05", "content", what, step,
                              f"content after save+restart+load differs at block {i}: saved {a[i] if i < len(a) else None!r}, reloaded {b_[i] if i < len(b_) else None!r}")
                            return res
                        res.probes["reload_equal"] += 1
                    c05["before"] = cont
                res.event(step, "load:" + op["stack"] + ":" + via, "ok:" + hexdigest_of(repr([content(b) for b in blocks[:50]]), 8), "")
                if b"\r\n" in data:
                    res.probes["crlf_file_loaded"] += 1

            elif kind == "save":
                lib = mem["lib"]
                if lib is None:
                    res.skipped += 1
                    res.event(step, "save", "skipped", "")
                    continue
                f = None if op["fmt"] is None else fmts[op["fmt"] % len(fmts)]
                tl = len(mem["text"] or "")
                p = op["path"]
                res.sim_steps += 1
                res.nops += 1
                if op.get("how") == "file":
                    prev_bytes[p] = disk.files.get(p, b"")
                    try:
                        if op.get("target") == "stringio":
                            # in-memory handle the caller reads back afterwards, then stores the text itself
                            import io as _io
                            buf = _io.StringIO()
                            EP.write_file(buf, lib, bibtex_format=f)
                            disk.put(p, simfs.expected_written_bytes(buf.getvalue(), enc, cfg["platform_newline"]))
                            res.probes["saved_through_stringio"] += 1
                        elif enc.lower() == "utf-8" and op.get("target", "path") == "path":
                            EP.write_file(p, lib, bibtex_format=f)
                            res.probes["saved_to_path"] += 1
                        else:
                            # the caller owns the encoding: a file object opened with it (a path target
                            # would use whatever encoding open() defaults to, which the statement does not fix)
                            with disk.open(p, "w", encoding=enc) as fo:
                                EP.write_file(fo, lib, bibtex_format=f)
                            res.probes["saved_to_file_object"] += 1
                    except Exception as e:  # noqa
                        V("C05", "save", f"write_file/{type(e).__name__}", step, f"write_file raised {type(e).__name__}: {str(e)[:200]}")
                        return res
                    data = disk.get(p)
                else:
                    ok, out = guarded(step, "write_string", lambda: EP.write_string(lib, bibtex_format=f), tl)
                    if not ok:
                        return res
                    if prop == "C01" and not isinstance(out, str):
                        V("C01", "result", "write-not-a-string", step, f"write_string returned {type(out).__name__}")
                        return res
                    prev_bytes[p] = disk.files.get(p, b"")
                    data = out.encode(enc, "replace")
                    disk.put(p, data)
                    mem["seed_spans"] = None
                    mem["clean"] = not any(isinstance(b, M.ParsingFailedBlock) for b in lib.blocks)
                if prop == "C05":
                    def _txt(b_):
                        # the statement compares written TEXT; how an empty text is laid down (nothing at all, or a
                        # byte-order mark only) depends on the target the save went through, not on the writer
                        try:
                            return b_.decode(enc)
                        except UnicodeError:
                            return b_
                    if p == "again.bib":
                        if c05["bytes"] is not None and data != c05["bytes"] and _txt(data) != _txt(c05["bytes"]):
                            a, b_ = c05["bytes"], data
                            i = next((i for i in range(min(len(a), len(b_))) if a[i] != b_[i]), min(len(a), len(b_)))
                            V("C05", "fixpoint", "second-save-differs", step,
                              f"saving the reloaded library again differs at byte {i}: first {a[max(0,i-30):i+30]!r}, second {b_[max(0,i-30):i+30]!r}")
                            return res
                        res.probes["second_save_identical"] += 1
                    else:
                        c05["bytes"] = data
                res.event(step, "save", str(op["fmt"]) + ":" + hexdigest_of(data, 8), "")

            elif kind == "splice":
                _splice(res, op, cfg, docs, step, V, guarded)
                if res.violations:
                    return res
            else:
                raise ValueError(kind)
    return res


def _load_into(res, op, step, disk, enc, mem, prop, V, guarded):
    """parse_string(text2, library=lib): a second document parsed into the library an earlier call returned."""
    lib = mem["lib"]
    p = op["path"]
    if lib is None or p not in disk.files:
        res.skipped += 1
        res.event(step, "load_into", "skipped", "")
        return
    text, _ = lenient_decode(disk.get(p), enc)
    before = list(lib.blocks)
    res.sim_steps += 1
    res.nops += 1
    if op["stack"] == "raising":
        # a stack that fails half-way: the call raises (not C01's matter: the caller's middleware raised)
        try:
            EP.parse_string(text, parse_stack=[Raising()], library=lib)
            outcome = "returned"
        except RuntimeError:
            outcome = "raised"
        except RecursionError:
            res.precondition_miss += 1
            return
        except Exception as e:  # noqa
            outcome = "raised:" + type(e).__name__
        res.probes["parse_into_library_raised"] += outcome != "returned"
        if prop == "C03":
            now = lib.blocks
            # the blocks the earlier call returned must still be there, in their order
            if len(now) < len(before) or any(a is not b for a, b in zip(before, now)):
                V("C03", "order", "earlier-blocks-disturbed-by-failed-parse", step,
                  f"after a parse into the same library failed, the {len(before)} blocks returned by the earlier call are no longer a prefix of blocks "
                  f"(now {[type(b).__name__ for b in now][:8]})")
                return
        res.event(step, "load_into:raising", outcome, "")
        return
    stack = None if op["stack"] == "default" else []
    ok, out = guarded(step, "parse_string(library=)", lambda: EP.parse_string(text, parse_stack=stack, library=lib), len(text))
    if not ok:
        return
    res.probes["parsed_into_existing_library"] += 1
    if prop == "C03" and op["stack"] == "none":
        now = out.blocks
        if len(now) < len(before) or any(a is not b for a, b in zip(before, now)):
            V("C03", "order", "earlier-blocks-disturbed", step, "parsing a second text into a library disturbed the blocks already in it")
            return
        new = now[len(before):]
        viol, offs = tiling(text, new)
        if viol is not None:
            clause, detail, k = viol
            V("C03", clause, "into-existing-library", step, "second text parsed into an existing library: " + detail)
            return
        for b, o in zip(new, offs):
            if o is not None and b.raw and b.start_line != text[:o].count("\n"):
                V("C03", "line", "block-start/into-existing-library", step,
                  f"{type(b).__name__} reports start_line {b.start_line}, its raw starts on 0-based line {text[:o].count(chr(10))} of the second text")
                return
    mem["lib"] = out
    mem["text"] = (mem["text"] or "") + text
    mem["seed_spans"] = None
    res.nontrivial = True
    res.event(step, "load_into:" + op["stack"], "ok:" + hexdigest_of(repr([content(b) for b in out.blocks[:60]]), 8), "")


def _doc_key(b, text):
    """(class name, key) of a docgen block, read from the document text."""
    s_, e_ = b["span"]
    seg = text[s_:e_]
    if b["kind"] == "entry":
        inner = seg[seg.index("{") + 1:]
        end = min([i for i in (inner.find(","), inner.find("}")) if i >= 0] or [len(inner)])
        return ("Entry", inner[:end].strip())
    if b["kind"] == "string":
        inner = seg[seg.index("{") + 1:]
        return ("String", inner[:inner.index("=")].strip())
    return (b["kind"], None)


def _parse_blocks(text):
    return SP.Splitter(text).split().blocks


def _cmp(b):
    b = unwrap_dup(b)
    return (content(b), b.raw)


def _splice(res, op, cfg, docs, step, V, guarded):
    """C04: text' = D1 + X + D2, X = what faults did to a valid document M (or raw garbage)."""
    enc = cfg["encoding"]
    d1, mid, d2, oth = (docs[op[k] % len(docs)] for k in ("d1", "mid", "d2", "other"))
    # D1: truncated to end with a '}'-closed @-block
    b1 = list(d1["blocks"])
    while b1 and b1[-1]["kind"] == "icomment":
        b1.pop()
    D1 = d1["text"][: b1[-1]["span"][1]] if b1 else ""
    # D2: from the first @-block on
    b2 = list(d2["blocks"])
    while b2 and b2[0]["kind"] == "icomment":
        b2.pop(0)
    if op.get("no_d2"):
        b2 = []          # first clause of the statement alone: D1 followed by arbitrary text up to EOF
    elif not b2:
        res.precondition_miss += 1
        return
    D2 = d2["text"][b2[0]["span"][0]:] if b2 else ""
    legit_keys = None
    if op.get("raw_x") is not None:
        X = RAW_X[op["raw_x"] % len(RAW_X)] * op.get("raw_rep", 1)
        res.faults["raw_garbage"] += 1
        res.faults_eff["raw_garbage"] += 1
    else:
        data = mid["text"].encode(enc, "replace")
        other = oth["text"].encode(enc, "replace")
        prev = other
        for f in op["faults"]:
            new, dmg = faults.apply(data, f, cfg["sector"], prev=prev, other=other)
            res.faults[f["kind"]] += 1
            if new != data:
                res.faults_eff[f["kind"]] += 1
            if len(op["faults"]) == 1 and f["kind"] == "torn_write" and f.get("fill") in ("cut", "zero_sector") and new != data:
                # everything from the cut on is gone: a block of M that contains the cut has lost its closing brace and
                # cannot be a complete block, so only the blocks wholly before the cut may register their keys
                cut = len(data[:dmg[0]].decode(enc, "replace"))
                legit_keys = {_doc_key(b, mid["text"]) for b in mid["blocks"] if b["span"][1] <= cut} | \
                             {_doc_key(b, d1["text"]) for b in d1["blocks"]}
                res.probes["middle_is_cut_off_inside_a_block"] += any(b["span"][0] < cut < b["span"][1] for b in mid["blocks"])
            data = new
        X = data.decode(enc, "replace")
        if not op["faults"]:
            res.probes["concatenation_of_valid_documents"] += 1
    glue = op.get("glue", "\n")
    pre = D1 + ("\n" if D1 else "")
    text = pre + X + glue
    # D2 must start at the beginning of a line (without a suffix the text may end anywhere, also without a line break)
    if text and not text.endswith("\n") and (D2 or op.get("end_newline", True)):
        text += "\n"
    if not D2 and not op.get("end_newline", True):
        text = text.rstrip("\n") if op.get("raw_x") is not None else text
        res.probes["input_ends_without_newline"] += not text.endswith("\n")
    x_end = len(text)
    text += D2
    res.sim_steps += 3
    res.nops += 1
    res.nontrivial = True

    try:
        p1 = _parse_blocks(D1) if D1 else []
        p2 = _parse_blocks(D2) if D2 else []
    except Exception:
        res.precondition_miss += 1
        return
    plain_failed = lambda bs: [b for b in bs if isinstance(unwrap_dup(b), M.ParsingFailedBlock)]  # noqa
    if plain_failed(p1) or plain_failed(p2):
        res.precondition_miss += 1
        return

    for how in ("splitter", "parse_string"):
        try:
            if how == "splitter":
                got = _parse_blocks(text)
            else:
                got = EP.parse_string(text, parse_stack=[]).blocks
        except RecursionError:
            res.precondition_miss += 1   # C01's matter (size), not damage to neighbours
            return
        except Exception as e:  # noqa
            V("C04", "exception", how + "/" + type(e).__name__, step, f"{how} raised {type(e).__name__} on D1+X+D2: {str(e)[:200]}")
            return
        if len(got) < len(p1) + len(p2):
            V("C04", "count", how, step, f"D1 alone has {len(p1)} blocks, D2 alone {len(p2)}, but D1+X+D2 has only {len(got)}")
            return
        for i, b in enumerate(p1):
            g = got[i]
            if _cmp(g) != _cmp(b) or g.start_line != b.start_line:
                V("C04", "prefix", f"{how}/{type(unwrap_dup(b)).__name__}", step,
                  f"block {i} of the well-formed prefix changed when text was appended: alone {_cmp(b)!r}@{b.start_line}, with suffix {_cmp(g)!r}@{g.start_line}")
                return
        tail = got[len(got) - len(p2):]
        live = {id(x) for x in got if isinstance(x, (M.Entry, M.String))}
        for i, (g, b) in enumerate(zip(tail, p2)):
            if isinstance(g, M.DuplicateBlockKeyBlock) and not isinstance(b, M.DuplicateBlockKeyBlock) and id(g.previous_block) not in live:
                V("C04", "suffix", f"{how}/flagged-duplicate-without-an-earlier-live-block", step,
                  f"block {i} of the well-formed suffix ({type(unwrap_dup(b)).__name__} {g.key!r}) is flagged as a duplicate although no live "
                  f"entry / string with that key precedes it in the result (previous_block is a {type(g.previous_block).__name__} that is not among the blocks)")
                return
        if legit_keys is not None:
            for i, (g, b) in enumerate(zip(tail, p2)):
                if isinstance(g, M.DuplicateBlockKeyBlock) and not isinstance(b, M.DuplicateBlockKeyBlock) \
                        and (type(unwrap_dup(b)).__name__, str(g.key).strip()) not in legit_keys:
                    V("C04", "suffix", f"{how}/flagged-duplicate-of-a-cut-off-block", step,
                      f"block {i} of the well-formed suffix ({type(unwrap_dup(b)).__name__} {g.key!r}) is flagged as a duplicate, but the only earlier "
                      f"text with that key is a block that was cut off before its closing brace (a failed block registers no key)")
                    return
        line_off = text[:x_end].count("\n")
        for i, (g, b) in enumerate(zip(tail, p2)):
            if _cmp(g) == _cmp(b):
                # "parsed exactly as on its own": the same lines too, shifted by the number of line breaks before D2
                gl, bl = [g.start_line] + [f.start_line for f in getattr(unwrap_dup(g), "fields", [])], \
                         [b.start_line] + [f.start_line for f in getattr(unwrap_dup(b), "fields", [])]
                if any(x is None or y is None or x - y != line_off for x, y in zip(gl, bl)):
                    V("C04", "suffix-lines", f"{how}/{type(unwrap_dup(b)).__name__}", step,
                      f"block {i} of the well-formed suffix: start lines {gl} after X, {bl} on its own; {line_off} line breaks precede the suffix")
                    return
            if _cmp(g) != _cmp(b):
                st = "first" if i == 0 else "later"
                V("C04", "suffix", f"{how}/{st}/{type(unwrap_dup(b)).__name__}", step,
                  f"block {i} of the well-formed suffix is not parsed as on its own: alone {_cmp(b)!r}, after X {_cmp(g)!r}; X ends {text[max(0, x_end-40):x_end]!r}")
                return
    # the prefix under the DEFAULT stack: entries of D1 all of whose bare identifiers are defined by an @string of D1
    # itself resolve the same way whatever follows ("first @string with that key anywhere in the document" is D1's)
    if p1:
        try:
            a1 = EP.parse_string(D1).blocks
            a2 = EP.parse_string(text).blocks
        except Exception:
            a1 = a2 = None
        if a1 is not None and len(a2) >= len(a1) == len(p1):
            # only @strings of D1 whose own value is a plain enclosed literal: an alias or a concatenation could be
            # resolved further against later text by an implementation that follows chains
            d1_strings = {b.key for b in p1 if isinstance(b, M.String) and isinstance(b.value, str) and len(b.value) >= 2
                          and b.value[0] in '{"' and b.value[-1] in '}"' and "#" not in b.value}
            for i, (x, y, rawb) in enumerate(zip(a1, a2, p1)):
                if isinstance(rawb, M.Entry):
                    bare = [f.value for f in rawb.fields if isinstance(f.value, str) and f.value
                            and not (f.value[0] in '{"' and f.value[-1] in '}"') and not f.value.isdigit()]
                    if any(v not in d1_strings for v in bare) or any("#" in str(f.value) for f in rawb.fields):
                        continue        # (a '#' may be a concatenation whose pieces an implementation resolves against later @strings)
                if type(x) is type(y) and isinstance(x, (M.Entry, M.String, M.Preamble, M.ExplicitComment, M.ImplicitComment)) \
                        and not isinstance(unwrap_dup(y), M.ParsingFailedBlock):
                    from ..fingerprint import public_fingerprint as _fp
                    if _fp(x) != _fp(y):
                        V("C04", "prefix", f"default-stack/{type(x).__name__}", step,
                          f"block {i} of the well-formed prefix, parsed with the default stack, changed when text was appended "
                          f"(content, lines or metadata): alone {content(x)!r} / {getattr(x, 'parser_metadata', None)!r}, with suffix {content(y)!r} / {getattr(y, 'parser_metadata', None)!r}")
                        return
            res.probes["prefix_compared_under_default_stack"] += 1
    mids = got[len(p1): len(got) - len(p2)]
    cls = tuple(sorted({abort_class(b) for b in mids if isinstance(b, M.ParsingFailedBlock)}))
    for c in cls:
        res.probes["abort:" + c] += 1
    if X.rstrip().endswith("\\"):
        res.probes["x_ends_in_backslash"] += 1
    if not p2:
        res.probes["no_suffix_document"] += 1
    if p2 and isinstance(p2[0], M.Entry):
        res.probes["d2_starts_with_entry"] += 1
    elif p2:
        res.probes["d2_starts_with_" + type(p2[0]).__name__] += 1
    res.states.add((tuple(f["kind"] for f in op["faults"]), op.get("raw_x"), cls, len(mids) > 0))
    res.event(step, "splice", (",".join(f["kind"] for f in op["faults"]) or str(op.get("raw_x"))) + ":" + hexdigest_of(text, 8), "")


SHRINK_TIMEOUT = 5


def execute_traced(run, props):
    """A run hit the wall-clock watchdog: re-judge it deterministically under the step budget."""
    return execute(run, props, force_trace=True)


def stuck_result(run, props, waited_s):
    """Neither the plain nor the traced execution returned: the time is spent inside a call that
    executes no line of bibtexparser (in practice the regular-expression engine)."""
    res = RunResult()
    n = sum(len(d.get("text", "")) for d in _materialise(run["config"]))
    if props[0] == "C01":
        res.violate("C01", "hang", "C01/hang/stuck-in-one-call", max(0, len(run["ops"]) - 1),
                    f"the run did not return within {waited_s:.0f} s of wall-clock time on documents of {n} characters in total "
                    f"(such runs normally take milliseconds) and stayed below the line-event budget: one call that executes no "
                    f"Python line (the mark regex) does not come back")
    else:
        res.precondition_miss += 1
    return res
