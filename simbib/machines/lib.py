"""M-LIB (C08): histories of add / remove / replace on one Library, against a
reference model of the ordered list of logical blocks.  See DESIGN.md section 3/C08.

The model never calls the code's __eq__: pool objects carry a construction-time
clone class and model equality is clone-class equality (or identity).
"""
import itertools

from ..engine import RunResult
from ..fingerprint import digest
from ..fingerprint import public_digest
from ..repo import library as libmod
from ..repo import model as M

NAME = "lib"
PROPS = ("C08",)
KEEP_FIRST_OP = False

ENTRY_KEYS = ["a", "b", "c"]
STRING_KEYS = ["a", "b"]


# ------------------------------------------------------------------ pool


def universe():
    u = []
    for k in ENTRY_KEYS:
        for t in ("article", "book"):
            for v in (0, 1):
                u.append({"t": "entry", "type": t, "key": k, "v": v})
    for k in STRING_KEYS:
        for v in (0, 1):
            u.append({"t": "string", "key": k, "v": v})
    u.append({"t": "preamble", "v": 0})
    u.append({"t": "xcomment", "v": 0})
    u.append({"t": "icomment", "v": 0})
    u.append({"t": "failed", "v": 0})
    u.append({"t": "dupfield", "key": "a", "v": 0})
    u.append({"t": "dupfield", "key": "b", "v": 0})
    u.append({"t": "mwerror", "key": "a", "v": 0})
    u.append({"t": "mwerror", "key": "c", "v": 0})
    u.append({"t": "dupblock", "key": "a", "v": 0})
    u.append({"t": "dupblock_s", "key": "a", "v": 0})
    return u


UNIVERSE = universe()


def _entry(d):
    fields = [M.Field(key="title", value="{T%d}" % d["v"], start_line=1)]
    if d["v"]:
        fields.append(M.Field(key="year", value="19%02d" % d["v"], start_line=2))
    return M.Entry(entry_type=d.get("type", "article"), key=d["key"], fields=fields, start_line=0,
                   raw="@%s{%s,...}" % (d.get("type", "article"), d["key"]))


def build_pool(descs):
    """Objects for the pool plus a clone-class id per object.  Structural clones
    (same descriptor) share their error instance so that they are == by the
    code's structural equality, as deep copies of parsed blocks would be."""
    shared_err = {}
    objs, cls = [], []
    for d in descs:
        key = repr(sorted(d.items()))
        t = d["t"]
        unique = False
        if t == "entry":
            o = _entry(d)
        elif t == "string":
            o = M.String(key=d["key"], value='"S%d"' % d["v"], start_line=0, raw="@string{%s}" % d["key"])
        elif t == "preamble":
            o = M.Preamble(value="pre", start_line=0, raw="@preamble{pre}")
        elif t == "xcomment":
            o = M.ExplicitComment(comment="xc", start_line=0, raw="@comment{xc}")
        elif t == "icomment":
            o = M.ImplicitComment(comment="ic", start_line=0, raw="ic")
        elif t == "failed":
            err = shared_err.setdefault(key, Exception("boom"))
            o = M.ParsingFailedBlock(error=err, start_line=0, raw="@x{")
        elif t == "dupfield":
            e = _entry({"key": d["key"], "v": 1})
            e.fields.append(M.Field(key="title", value="{again}", start_line=3))
            o = M.DuplicateFieldKeyBlock(duplicate_keys={"title"}, entry=e)
            unique = True  # constructor makes a fresh Exception: never == another
        elif t == "mwerror":
            err = shared_err.setdefault(key, Exception("mw"))
            o = M.MiddlewareErrorBlock(block=_entry({"key": d["key"], "v": 0}), error=err)
        elif t == "dupblock":
            o = M.DuplicateBlockKeyBlock(key=d["key"], previous_block=_entry({"key": d["key"], "v": 0}),
                                         duplicate_block=_entry({"key": d["key"], "v": 1}), start_line=0, raw="r")
            unique = True
        elif t == "dupblock_s":
            s1 = M.String(key=d["key"], value='"p"')
            s2 = M.String(key=d["key"], value='"q"')
            o = M.DuplicateBlockKeyBlock(key=d["key"], previous_block=s1, duplicate_block=s2, start_line=0, raw="r")
            unique = True
        else:
            raise ValueError(t)
        objs.append(o)
        cls.append(("u", len(objs)) if unique else ("c", key))
    return objs, cls


# ------------------------------------------------------------------ generation


def _ref(rng, npool):
    r = rng.random()
    if r < 0.55:
        return {"pool": rng.randrange(npool)}
    if r < 0.85:
        return {"held": rng.randrange(997)}
    return {"inner": rng.randrange(997)}


def generate(rng, tier, prop):
    nbase = rng.randint(4, 9)
    base = [rng.choice(UNIVERSE) for _ in range(nbase)]
    # collisions on purpose: several entries on one key, and structural clones
    if rng.random() < 0.7:
        k = rng.choice(ENTRY_KEYS)
        base += [{"t": "entry", "type": rng.choice(["article", "book"]), "key": k, "v": rng.randint(0, 1)} for _ in range(2)]
    if rng.random() < 0.5:
        k = rng.choice(STRING_KEYS)
        base += [{"t": "string", "key": k, "v": rng.randint(0, 1)} for _ in range(2)]
    nclones = rng.randint(1, 4)
    pool = list(base) + [dict(rng.choice(base)) for _ in range(nclones)]
    rng.shuffle(pool)
    npool = len(pool)

    maxops = 30 if tier == "quick" else rng.choice([30, 30, 45])
    nops = rng.randint(1, maxops)
    # size swarm: a few long histories over a wider key universe (thresholds, caches, quadratic paths)
    if rng.random() < (0.01 if tier == "quick" else 0.02):
        wide = [chr(ord("a") + i) for i in range(rng.choice([6, 12, 26]))]
        pool += [{"t": "entry", "type": rng.choice(["article", "book"]), "key": rng.choice(wide), "v": rng.randint(0, 1)}
                 for _ in range(rng.choice([20, 60, 150]))]
        pool += [{"t": "string", "key": rng.choice(wide), "v": rng.randint(0, 1)} for _ in range(rng.choice([5, 20]))]
        npool = len(pool)
        nops = rng.randint(80, 250 if tier == "quick" else 600)
    w_add, w_rem, w_rep = rng.choice([(5, 2, 3), (4, 3, 3), (3, 3, 4), (6, 1, 3), (3, 5, 2)])
    p_fail = rng.choice([0.2, 0.5, 0.8])
    p_list = rng.choice([0.15, 0.35])
    ops = []
    if rng.random() < 0.4:
        ops.append({"op": "new", "blocks": [{"pool": rng.randrange(npool)} for _ in range(rng.randint(0, 5))]})
    for _ in range(nops):
        r = rng.random() * (w_add + w_rem + w_rep)
        if r < w_add:
            if rng.random() < p_list:
                x = [{"pool": rng.randrange(npool)} if rng.random() < 0.85 else _ref(rng, npool)
                     for _ in range(rng.randint(0, 3))]
            else:
                x = {"pool": rng.randrange(npool)} if rng.random() < 0.85 else _ref(rng, npool)
            ops.append({"op": "add", "x": x, "fail": rng.random() < p_fail})
        elif r < w_add + w_rem:
            if rng.random() < p_list:
                # bias: a held block followed by one that is (probably) not held
                x = [{"held": rng.randrange(997)} if rng.random() < 0.6 else _ref(rng, npool)
                     for _ in range(rng.randint(0, 3))]
            else:
                x = {"held": rng.randrange(997)} if rng.random() < 0.5 else _ref(rng, npool)
            ops.append({"op": "remove", "x": x})
        else:
            old = {"held": rng.randrange(997)} if rng.random() < 0.6 else _ref(rng, npool)
            new = {"pool": rng.randrange(npool)} if rng.random() < 0.8 else _ref(rng, npool)
            ops.append({"op": "replace", "old": old, "new": new, "fail": rng.random() < p_fail})
    # a second library holding some of the same block objects: nothing done to the first may show in it
    bystander = [rng.randrange(npool) for _ in range(rng.randint(0, 4))] if rng.random() < 0.5 else None
    return {"config": {"pool": pool, "bystander": bystander}, "ops": ops}


def simplifications(run):
    ops = run["ops"]
    for i, op in enumerate(ops):
        if isinstance(op.get("x"), list):
            for j in range(len(op["x"])):
                c = {"config": run["config"], "machine": run.get("machine"),
                     "ops": ops[:i] + [dict(op, x=op["x"][:j] + op["x"][j + 1:])] + ops[i + 1:]}
                yield c
            if len(op["x"]) == 1:
                yield {"config": run["config"], "machine": run.get("machine"),
                       "ops": ops[:i] + [dict(op, x=op["x"][0])] + ops[i + 1:]}
        if op.get("fail") is True:
            yield {"config": run["config"], "machine": run.get("machine"),
                   "ops": ops[:i] + [dict(op, fail=False)] + ops[i + 1:]}
        if op.get("op") == "new" and op["blocks"]:
            for j in range(len(op["blocks"])):
                yield {"config": run["config"], "machine": run.get("machine"),
                       "ops": ops[:i] + [dict(op, blocks=op["blocks"][:j] + op["blocks"][j + 1:])] + ops[i + 1:]}


# ------------------------------------------------------------------ model


class Slot:
    __slots__ = ("real", "logical")

    def __init__(self, real, logical):
        self.real = real
        self.logical = logical

    @property
    def wrapped(self):
        return self.real is not self.logical


class World:
    def __init__(self, descs):
        self.pool, cls = build_pool(descs)
        self.cls = {id(o): c for o, c in zip(self.pool, cls)}
        self.keep = list(self.pool)

    def clone_eq(self, a, b):
        """Structural equality decided by the harness (never by the code's
        __eq__): same class, same content recursively, exceptions by identity."""
        if a is b:
            return True
        return type(a) is type(b) and _skey(a) == _skey(b)


def _skey(o, depth=0):
    if isinstance(o, (str, int, float, bool, type(None))):
        return (type(o).__name__, o)
    if isinstance(o, BaseException):
        return ("exc", id(o))
    if depth > 50:
        return ("deep",)
    if isinstance(o, (list, tuple)):
        return (type(o).__name__,) + tuple(_skey(x, depth + 1) for x in o)
    if isinstance(o, dict):
        return ("dict",) + tuple(sorted((repr(_skey(k, depth + 1)), _skey(v, depth + 1)) for k, v in o.items()))
    if isinstance(o, (set, frozenset)):
        return ("set",) + tuple(sorted(repr(_skey(x, depth + 1)) for x in o))
    from ..fingerprint import attrs
    d = attrs(o)
    if d is not None:
        return (type(o).__qualname__,) + tuple(sorted((k, _skey(v, depth + 1)) for k, v in d.items()))
    return ("opaque", id(o))


def _kind(b):
    if isinstance(b, M.Entry):
        return "E"
    if isinstance(b, M.String):
        return "S"
    return None


def shape_of(lib):
    out = []
    for b in lib.blocks:
        if isinstance(b, M.DuplicateBlockKeyBlock):
            out.append(("dup", getattr(b, "key", ""), type(b.ignore_error_block).__name__))
        else:
            out.append((type(b).__name__, getattr(b, "key", "")))
    return (tuple(out), tuple(sorted(lib.entries_dict)), tuple(sorted(lib.strings_dict)))


def snapshot(lib):
    return (
        tuple(public_digest(b) for b in lib.blocks),
        tuple(sorted(lib.entries_dict)),
        tuple(sorted(lib.strings_dict)),
    )


def view_invariants(lib):
    """Clause (2): view consistency on the real state.  Returns list of (clause, message)."""
    bad = []
    blocks = list(lib.blocks)
    ids = [id(b) for b in blocks]
    ent = [b for b in blocks if isinstance(b, M.Entry)]
    st = [b for b in blocks if isinstance(b, M.String)]
    entries = lib.entries
    if [id(b) for b in entries] != [id(b) for b in ent]:
        bad.append(("entries-view", f"entries {[getattr(b,'key',None) for b in entries]} is not the Entry subsequence {[b.key for b in ent]} of blocks"))
    ed = lib.entries_dict
    if sorted(ed) != sorted(b.key for b in ent) or any(ed.get(b.key) is not b for b in ent):
        bad.append(("entries-dict", f"entries_dict keys {sorted(ed)} vs held entry keys {sorted(b.key for b in ent)} (or maps to another object)"))
    if len({b.key for b in ent}) != len(ent):
        bad.append(("unique-entry-keys", f"two held entries share a key: {[b.key for b in ent]}"))
    sd = lib.strings_dict
    if sorted(sd) != sorted(b.key for b in st) or any(sd.get(b.key) is not b for b in st):
        bad.append(("strings-dict", f"strings_dict keys {sorted(sd)} vs held string keys {sorted(b.key for b in st)} (or maps to another object)"))
    if len({b.key for b in st}) != len(st):
        bad.append(("unique-string-keys", f"two held strings share a key: {[b.key for b in st]}"))
    if sorted(id(b) for b in lib.strings) != sorted(id(b) for b in st):
        bad.append(("strings-view", "strings is not the multiset of held String blocks"))
    # partition by identity (multiset: the same comment object may be held twice)
    parts = [entries, lib.strings, lib.preambles, lib.comments, lib.failed_blocks]
    union = sorted(id(b) for p in parts for b in p)
    if union != sorted(ids):
        bad.append(("partition", f"views do not partition blocks: {len(union)} view members vs {len(ids)} blocks"))
    pre = [b for b in blocks if isinstance(b, M.Preamble)]
    com = [b for b in blocks if isinstance(b, (M.ExplicitComment, M.ImplicitComment))]
    fb = [b for b in blocks if isinstance(b, M.ParsingFailedBlock)]
    if [id(b) for b in lib.preambles] != [id(b) for b in pre]:
        bad.append(("preambles-view", "preambles is not the Preamble subsequence of blocks"))
    if [id(b) for b in lib.comments] != [id(b) for b in com]:
        bad.append(("comments-view", "comments is not the comment subsequence of blocks"))
    if [id(b) for b in lib.failed_blocks] != [id(b) for b in fb]:
        bad.append(("failed-view", "failed_blocks is not the failed-block subsequence of blocks"))
    return bad


# ------------------------------------------------------------------ execution


def _resolve(ref, lib, world):
    if "pool" in ref:
        return world.pool[ref["pool"] % len(world.pool)]
    n = len(lib.blocks) if lib is not None else 0
    if n == 0:
        return None
    b = lib.blocks[ref.get("held", ref.get("inner", 0)) % n]
    if "inner" in ref:
        inner = getattr(b, "ignore_error_block", None)
        return inner if isinstance(inner, M.Block) else b
    return b


def _match_candidates(slots, x, world):
    """Positions a remove/replace may legitimately act on: the first slot that
    list.remove would match (identity or structural equality), or the slot
    holding x itself (identity).  Both readings of 'the block' are accepted."""
    first_eq = None
    for i, s in enumerate(slots):
        if s.real is x or (not s.wrapped and world.clone_eq(s.logical, x)):
            first_eq = i
            break
    ident = None
    for i, s in enumerate(slots):
        if s.real is x or s.logical is x:
            ident = i
            break
    out = []
    for c in (first_eq, ident):
        if c is not None and c not in out:
            out.append(c)
    return out


def _refines(real_blocks, slots, made):
    """real block list refines the logical slot list.  `made` = ids of wrapper
    objects the caller has ever passed in (those count as plain blocks)."""
    if len(real_blocks) != len(slots):
        return False
    for r, s in zip(real_blocks, slots):
        if r is s.logical:
            continue
        if isinstance(r, M.DuplicateBlockKeyBlock) and r.ignore_error_block is s.logical:
            continue
        return False
    return True


def _resync(lib, caller_known):
    slots = []
    for r in lib.blocks:
        if isinstance(r, M.DuplicateBlockKeyBlock) and id(r) not in caller_known and isinstance(r.ignore_error_block, M.Block):
            slots.append(Slot(r, r.ignore_error_block))
        else:
            slots.append(Slot(r, r))
    return slots


def execute(run, props):
    res = RunResult()
    world = World(run["config"]["pool"])
    caller_known = {id(o) for o in world.pool}   # objects the caller passed in as blocks
    keep = []
    lib = None
    slots = []
    ever_removed_keys = set()
    last_snapshot = None

    by = None
    by_snap = None
    if run["config"].get("bystander") is not None:
        idx = list(dict.fromkeys(i % len(world.pool) for i in run["config"]["bystander"]))   # distinct objects only
        try:
            by = libmod.Library(blocks=[world.pool[i] for i in idx])
            by_snap = (snapshot(by), [id(b) for b in by.blocks])
            res.probes["bystander_library"] += 1
        except Exception:
            by = None        # a library may refuse these blocks; then there is simply no bystander in this run

    def ensure_lib():
        nonlocal lib
        if lib is None:
            lib = libmod.Library()

    for step, op in enumerate(run["ops"]):
        kind = op["op"]
        if kind == "new":
            if lib is not None:
                res.skipped += 1
                res.event(step, "new", "skipped", "")
                continue
            blocks = [world.pool[r["pool"] % len(world.pool)] for r in op["blocks"]]
            try:
                lib = libmod.Library(blocks=list(blocks))
                outcome = "returned"
            except ValueError:
                outcome = "ValueError"
                lib = libmod.Library()
                blocks = []
            except Exception as e:  # noqa
                outcome = "other:" + type(e).__name__
                lib = libmod.Library()
                blocks = []
            res.sim_steps += 1
            res.nops += 1
            slots = [Slot(None, b) for b in blocks]
            if outcome == "returned" and not _refines(lib.blocks, slots, set()):
                res.violate("C08", "refinement", "C08/refinement/Library(blocks)", step,
                            f"Library(blocks=...) holds {shape_of(lib)[0]} for {len(blocks)} given blocks")
                return res
            slots = _resync(lib, caller_known)
            try:
                bad_views = view_invariants(lib)
            except Exception as e:  # noqa
                bad_views = [("unreadable", f"reading the library's views raised {type(e).__name__}: {e}")]
            for c, msg in bad_views:
                res.violate("C08", "view", f"C08/view/{c}/after-new", step, msg)
                return res
            res.nontrivial = res.nontrivial or bool(blocks)
            res.states.add(shape_of(lib))
            res.event(step, "new", outcome, digest(shape_of(lib), n=8))
            continue

        ensure_lib()
        # nothing but the calls below touches the library, so the snapshot taken
        # after the previous call is the pre-call snapshot of this one
        pre_snapshot = last_snapshot if last_snapshot is not None else snapshot(lib)
        pre_real = list(lib.blocks)
        had_dups = any(s.wrapped for s in slots)

        # ---- resolve arguments
        if kind in ("add", "remove"):
            xs = op["x"]
            is_list = isinstance(xs, list)
            refs = xs if is_list else [xs]
            objs = [_resolve(r, lib, world) for r in refs]
            if any(o is None for o in objs):
                res.skipped += 1
                res.event(step, kind, "skipped", "")
                continue
            arg = list(objs) if is_list else objs[0]
        else:
            old = _resolve(op["old"], lib, world)
            new = _resolve(op["new"], lib, world)
            if old is None or new is None:
                res.skipped += 1
                res.event(step, kind, "skipped", "")
                continue
            objs = [old, new]
        keep.extend(objs)

        # ---- candidates for the post-state of the model
        cands = []
        if kind == "add":
            cands = [slots + [Slot(None, o) for o in objs]]
            label = "add(list)" if is_list else "add"
            if op["fail"]:
                label += "(fail_on_duplicate_key)"
        elif kind == "remove":
            label = "remove(list)" if is_list else "remove"
            partial = [list(slots)]
            feasible = True
            for o in objs:
                nxt = []
                for st_ in partial:
                    for p in _match_candidates(st_, o, world):
                        nxt.append(st_[:p] + st_[p + 1:])
                if not nxt:
                    feasible = False
                    break
                partial = nxt[:16]
            cands = partial if feasible else [list(slots)]
        else:
            label = "replace(fail_on_duplicate_key)" if op["fail"] else "replace"
            ps = _match_candidates(slots, old, world)
            cands = [slots[:p] + [Slot(None, new)] + slots[p + 1:] for p in ps] or [list(slots)]

        # ---- the real call
        try:
            if kind == "add":
                lib.add(arg, fail_on_duplicate_key=op["fail"])
            elif kind == "remove":
                lib.remove(arg)
            else:
                lib.replace(old, new, fail_on_duplicate_key=op["fail"])
            outcome = "returned"
        except ValueError:
            outcome = "ValueError"
        except Exception as e:  # noqa
            outcome = "other:" + type(e).__name__
        res.sim_steps += 1
        res.nops += 1

        if kind in ("add", "replace"):
            for o in ([new] if kind == "replace" else objs):
                caller_known.add(id(o))

        # ---- probes
        if kind == "replace" and outcome == "ValueError" and _match_candidates(slots, old, world):
            res.probes["replace_rollback"] += 1
            if had_dups:
                res.probes["failing_replace_with_dups_held"] += 1
        if kind == "replace" and outcome == "returned" and _kind(old) and _kind(new) and _kind(old) != _kind(new):
            res.probes["replace_across_kinds"] += 1
        if kind == "remove" and outcome == "returned":
            for o in objs:
                if not any(r is o for r in pre_real):
                    res.probes["remove_by_equality_of_clone"] += 1
                if _kind(o):
                    ever_removed_keys.add((_kind(o), o.key))
        if kind == "remove" and is_list and outcome == "ValueError" and len(objs) > 1:
            res.probes["list_remove_raised"] += 1
        if kind == "add" and outcome == "ValueError":
            res.probes["add_raised_on_duplicate"] += 1
        if kind == "add" and outcome == "returned":
            for o in objs:
                if any(r is o for r in pre_real):
                    res.probes["same_object_added_twice"] += 1
                if _kind(o) and (_kind(o), o.key) in ever_removed_keys:
                    res.probes["add_key_after_removal"] += 1
        if kind == "replace" and old is new:
            res.probes["replace_by_itself"] += 1

        # ---- oracles
        post_shape = shape_of(lib) if _safe(lambda: shape_of(lib)) else ("broken",)
        if outcome == "returned":
            if not any(_refines(lib.blocks, c, _made_ids(c)) for c in cands):
                res.violate(
                    "C08", "refinement", f"C08/refinement/{label}", step,
                    f"after {label} the blocks are {post_shape[0]} but the model expects "
                    f"{[_desc(s.logical) for s in cands[0]]} (insertion order, replace keeps position)")
                return res
        post = last_snapshot = snapshot(lib)
        if outcome == "returned":
            pass
        elif outcome == "ValueError":
            if post != pre_snapshot:
                sig = f"C08/atomicity/{label}"
                if kind == "add" and op["fail"]:
                    # the documented behaviour: every block of the call was appended, then ValueError
                    appended = len(lib.blocks) == len(pre_real) + len(objs) and post[0][: len(pre_real)] == pre_snapshot[0]
                    sig += "/appended-then-raised" if appended else "/other"
                res.violate(
                    "C08", "atomicity", sig, step,
                    f"{label} raised ValueError but the library changed: blocks {len(pre_real)} -> {len(lib.blocks)}, "
                    f"shape now {post_shape}")
                if sig not in _KNOWN_CONTINUE:
                    return res
        else:
            # the statement constrains states, not which exception class a call
            # uses: only the view invariants below are judged, then the model is
            # re-synchronised from the real block list
            res.probes["other_exception:" + outcome] += 1

        try:
            bad_views = view_invariants(lib)
        except Exception as e:  # noqa
            bad_views = [("unreadable", f"reading the library's views raised {type(e).__name__}: {e}")]
        for c, msg in bad_views:
            res.violate("C08", "view", f"C08/view/{c}/after-{label}", step, msg)
            return res
        # (what a duplicate wrapper exposes - key, previous block - is C09's clause, not C08's: counted, not judged)
        for r in lib.blocks:
            if isinstance(r, M.DuplicateBlockKeyBlock) and id(r) not in caller_known:
                res.probes["library_made_duplicate_wrapper_held"] += 1
                break

        if by is not None:
            try:
                now = (snapshot(by), [id(b) for b in by.blocks])
                bad_by = view_invariants(by)
            except Exception as e:  # noqa
                now, bad_by = None, [("unreadable", str(e))]
            if now != by_snap or bad_by:
                res.violate("C08", "isolation", f"C08/isolation/after-{label}", step,
                            f"{label} on one library changed another library that holds some of the same blocks"
                            + (f": {bad_by[0][1]}" if bad_by else f": its blocks / key sets went from {by_snap[0][1:]} to {now[0][1:]}"))
                return res

        slots = _resync(lib, caller_known)
        if post != pre_snapshot:
            res.nontrivial = True
        res.states.add(post_shape)
        res.event(step, label, outcome, digest(post_shape, n=8))
    return res


_KNOWN_CONTINUE = {
    # after a known (documented) non-atomic add the run goes on from the real state
    "C08/atomicity/add(fail_on_duplicate_key)/appended-then-raised",
    "C08/atomicity/add(list)(fail_on_duplicate_key)/appended-then-raised",
}


def _made_ids(cand):
    """ids that must be treated as caller blocks in a candidate (wrappers the caller passed)."""
    return {id(s.logical) for s in cand}


def _safe(f):
    try:
        f()
        return True
    except Exception:
        return False


def _desc(b):
    return (type(b).__name__, getattr(b, "key", ""))
