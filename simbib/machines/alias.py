"""M-ALIAS (C07): histories of read-only operations over an arena of shared
libraries, formats and long-lived copy-mode middleware instances.

After every op: (1) every published library / format still has its
creation-time deep fingerprint; (2) a transform's output shares no mutable
object with its input; (3) writing the same (library, format) pair again gives
the same text.
"""
import random

from .. import docgen, faults, simfs
from ..engine import RunResult
from ..fingerprint import digest, shared_mutables
from ..fingerprint import public_fingerprint as fingerprint
from ..repo import entrypoint as EP
from ..repo import model as M
from ..repo import mws
from .store import mk_format, draw_format

NAME = "alias"
PROPS = ("C07",)

BT = {"S": M.String, "P": M.Preamble, "E": M.Entry, "I": M.ImplicitComment, "X": M.ExplicitComment}

# (name, constructor) -- append only: indices are part of replay files
CATALOGUE = [
    ("RemoveEnclosing", lambda: mws.RemoveEnclosingMiddleware(allow_inplace_modification=False)),
    ("AddEnclosing{reuse,int}", lambda: mws.AddEnclosingMiddleware(reuse_previous_enclosing=True, enclose_integers=True, default_enclosing="{", allow_inplace_modification=False)),
    ("AddEnclosing{noreuse,noint}", lambda: mws.AddEnclosingMiddleware(reuse_previous_enclosing=False, enclose_integers=False, default_enclosing="{", allow_inplace_modification=False)),
    ('AddEnclosing"reuse,noint', lambda: mws.AddEnclosingMiddleware(reuse_previous_enclosing=True, enclose_integers=False, default_enclosing='"', allow_inplace_modification=False)),
    ('AddEnclosing"noreuse,int', lambda: mws.AddEnclosingMiddleware(reuse_previous_enclosing=False, enclose_integers=True, default_enclosing='"', allow_inplace_modification=False)),
    ("NormalizeFieldKeys", lambda: mws.NormalizeFieldKeys(allow_inplace_modification=False)),
    ("ResolveStringReferences", lambda: mws.ResolveStringReferencesMiddleware(allow_inplace_modification=False)),
    ("LatexEncoding", lambda: mws.LatexEncodingMiddleware(allow_inplace_modification=False)),
    ("LatexEncoding(nomath,nourl)", lambda: mws.LatexEncodingMiddleware(keep_math=False, enclose_urls=False, allow_inplace_modification=False)),
    ("LatexDecoding", lambda: mws.LatexDecodingMiddleware(allow_inplace_modification=False)),
    ("LatexDecoding(braces,nomath)", lambda: mws.LatexDecodingMiddleware(keep_braced_groups=True, keep_math_mode=False, allow_inplace_modification=False)),
    ("MonthInt", lambda: mws.MonthIntMiddleware(allow_inplace_modification=False)),
    ("MonthAbbreviation", lambda: mws.MonthAbbreviationMiddleware(allow_inplace_modification=False)),
    ("MonthLongString", lambda: mws.MonthLongStringMiddleware(allow_inplace_modification=False)),
    ("SeparateCoAuthors", lambda: mws.SeparateCoAuthors(allow_inplace_modification=False)),
    ("MergeCoAuthors", lambda: mws.MergeCoAuthors(allow_inplace_modification=False)),
    ("SplitNameParts", lambda: mws.SplitNameParts(allow_inplace_modification=False)),
    ("MergeNameParts(last)", lambda: mws.MergeNameParts(style="last", allow_inplace_modification=False)),
    ("MergeNameParts(first)", lambda: mws.MergeNameParts(style="first", allow_inplace_modification=False)),
    ("SortBlocks(default)", lambda: mws.SortBlocksByTypeAndKeyMiddleware()),
    ("SortBlocks(E,S;nocomments)", lambda: mws.SortBlocksByTypeAndKeyMiddleware(block_type_order=(M.Entry, M.String), preserve_comments_on_top=False)),
    ("SortBlocks(X,I,E)", lambda: mws.SortBlocksByTypeAndKeyMiddleware(block_type_order=(M.ExplicitComment, M.ImplicitComment, M.Entry), preserve_comments_on_top=True)),
    ("SortFieldsAlphabetically", lambda: mws.SortFieldsAlphabeticallyMiddleware(allow_inplace_modification=False)),
    ("SortFieldsCustom(ci)", lambda: mws.SortFieldsCustomMiddleware(order=("Title", "author", "year"), case_sensitive=False, allow_inplace_modification=False)),
    ("SortFieldsCustom(cs)", lambda: mws.SortFieldsCustomMiddleware(order=("title", "Title", "year"), case_sensitive=True, allow_inplace_modification=False)),
    ("SortFieldsCustom(ci,list)", lambda: mws.SortFieldsCustomMiddleware(order=["year", "author"], case_sensitive=False, allow_inplace_modification=False)),
    ("SortFieldsCustom(cs,list)", lambda: mws.SortFieldsCustomMiddleware(order=["year", "author"], case_sensitive=True, allow_inplace_modification=False)),
    # name middlewares restricted to one field each: a library may hold split names in one field and plain lists in another
    ("SplitNameParts(author)", lambda: mws.SplitNameParts(allow_inplace_modification=False, name_fields=("author",))),
    ("SplitNameParts(editor)", lambda: mws.SplitNameParts(allow_inplace_modification=False, name_fields=("editor",))),
    ("SeparateCoAuthors(editor)", lambda: mws.SeparateCoAuthors(allow_inplace_modification=False, name_fields=("editor",))),
    ("MergeNameParts(last;author)", lambda: mws.MergeNameParts(style="last", allow_inplace_modification=False, name_fields=("author",))),
    # converters that fail on some values (custom encoder= / decoder=): error blocks are built in copy mode too
    ("LatexEncoding(flaky)", lambda: mws.LatexEncodingMiddleware(encoder=Flaky(), allow_inplace_modification=False)),
    ("LatexDecoding(flaky)", lambda: mws.LatexDecodingMiddleware(decoder=Flaky(), allow_inplace_modification=False)),
]


class Flaky:
    """A converter that refuses every value whose length is a multiple of 3 (deterministic)."""

    def unicode_to_latex(self, s):
        if len(s) % 3 == 0:
            raise ValueError("flaky converter refuses %d characters" % len(s))
        return s.upper()

    latex_to_text = unicode_to_latex


STACKS = ["default", "none", "names", "sep", "month", "normkeys", "sep", "split_author"]


def generate(rng, tier, prop):
    ndocs = rng.randint(1, 3)
    docs = []
    for _ in range(ndocs):
        kn = docgen.draw_knobs(rng, tier, "utf-8")
        kn.update({"nblocks": rng.choice([1, 2, 3, 4, 6]) if rng.random() > (0.02 if tier == "quick" else 0.08) else rng.choice([30, 80, 200]), "collide": rng.random() < 0.4, "names": rng.random() < 0.7,
                   "maxfields": rng.choice([2, 5, 8])})
        docs.append({"text": docgen.make_doc(rng, kn)["text"]})
        if rng.random() < 0.12:
            # size knob: a field key (and entry key) far longer than any alignment column a format would pick
            n = rng.choice([40, 62, 64, 70, 130, 600])
            docs[-1]["text"] += "\n@misc{long" + "k" * n + ",\n " + "f" * n + " = {v},\n b = 1\n}\n"
    cfg = {"docs": docs, "formats": [draw_format(rng) for _ in range(2)] + [dict(draw_format(rng), value_column="auto")]}
    ops = []
    for d in range(ndocs):
        if rng.random() < 0.35:
            f = faults.draw(rng, ["torn_write", "bit_rot", "lost_write", "garbage_insert", "dup_write"])
            ops.append({"op": "damage", "doc": d, "fault": f, "stack": rng.choice(STACKS)})
        else:
            ops.append({"op": "parse", "doc": d, "stack": rng.choice(STACKS)})
    n = rng.randint(2, 14 if tier == "quick" else 24)
    focus = rng.sample(range(len(CATALOGUE)), rng.randint(1, 5))   # swarm: a few instances get most of the traffic
    names = {nm: i for i, (nm, _) in enumerate(CATALOGUE)}
    if rng.random() < 0.08:
        # a library whose author field is already split while its editor field is still a plain list,
        # handed to the name middlewares that work on the other field
        ops.append({"op": "parse", "doc": rng.randrange(ndocs), "stack": "split_author"})
        focus = [names["SplitNameParts(editor)"], names["SplitNameParts(author)"], names["MergeNameParts(last;author)"], names["SeparateCoAuthors(editor)"]]
    p_write = rng.choice([0.2, 0.4])
    for _ in range(n):
        r = rng.random()
        if r < p_write:
            ops.append({"op": "write", "lib": rng.randrange(12), "fmt": rng.choice([None, 0, 1, 2]),
                        "via": rng.choice(["string", "string", "path", "fileobj"])})
        elif r < p_write + 0.05:
            ops.append({"op": "parse", "doc": rng.randrange(ndocs), "stack": rng.choice(STACKS)})
        elif r < p_write + 0.09:
            # the caller edits a private deep copy while writing it (in-place middleware given as prepend_middleware /
            # unparse_stack): nothing of that call may stay behind in the entry points for later writes of other libraries
            ops.append({"op": "write_private", "lib": rng.randrange(12), "mw": rng.randrange(3), "arg": rng.choice(["prepend", "prepend", "stack"])})
        else:
            m = rng.choice(focus) if rng.random() < 0.75 else rng.randrange(len(CATALOGUE))
            # bias: feed an instance its own earlier output
            lib = {"last_out_of": m} if rng.random() < 0.3 else rng.randrange(12)
            ops.append({"op": "transform", "mw": m, "lib": lib})
    return {"config": cfg, "ops": ops}


def _stack(name):
    if name == "default":
        return {}
    if name == "none":
        return {"parse_stack": []}
    if name == "names":
        return {"append_middleware": [mws.SeparateCoAuthors(), mws.SplitNameParts()]}
    if name == "sep":
        return {"append_middleware": [mws.SeparateCoAuthors()]}
    if name == "month":
        return {"append_middleware": [mws.MonthIntMiddleware()]}
    if name == "split_author":
        return {"append_middleware": [mws.SeparateCoAuthors(), mws.SplitNameParts(name_fields=("author",))]}
    if name == "normkeys":
        return {"append_middleware": [mws.NormalizeFieldKeys()]}
    raise ValueError(name)


def _copyable(o):
    import copy as _copy
    try:
        _copy.deepcopy(o)
        return True
    except Exception:
        return False


class Pub:
    __slots__ = ("obj", "fp", "depth", "chain", "kind")

    def __init__(self, obj, depth, chain, kind):
        self.obj, self.depth, self.chain, self.kind = obj, depth, chain, kind
        self.fp = fingerprint(obj)


def execute(run, props):
    res = RunResult()
    cfg = run["config"]
    libs = []       # published libraries
    fmts = [Pub(mk_format(f), 0, (), "format") for f in cfg["formats"]]
    instances = {}
    last_out = {}   # mw index -> arena index of its latest output
    written = {}    # (lib index, fmt index) -> text
    disk = simfs.SimDisk()

    def V(clause, sig, step, msg):
        res.violate("C07", clause, f"C07/{clause}/{sig}", step, msg)

    def check_arena(step, label):
        for i, p in enumerate(libs):
            if fingerprint(p.obj) != p.fp:
                V("mutated", label + "/library", step,
                  f"{label} changed published library #{i} (chain {p.chain}): it no longer equals its creation-time deep copy")
                return False
        for i, p in enumerate(fmts):
            if fingerprint(p.obj) != p.fp:
                V("mutated", label + "/format", step, f"{label} changed BibtexFormat #{i}")
                return False
        return True

    def classes(lib):
        return tuple(sorted({type(b).__name__[:6] for b in lib.blocks}))

    with simfs.installed(disk):
        for step, op in enumerate(run["ops"]):
            kind = op["op"]
            if kind in ("parse", "damage"):
                text = cfg["docs"][op["doc"] % len(cfg["docs"])]["text"]
                if kind == "damage":
                    data, _ = faults.apply(text.encode("utf-8"), op["fault"], 16)
                    text = data.decode("utf-8", "replace")
                    res.faults[op["fault"]["kind"]] += 1
                    res.faults_eff[op["fault"]["kind"]] += 1
                try:
                    lib = EP.parse_string(text, **_stack(op["stack"]))
                except Exception:
                    res.precondition_miss += 1   # C01's matter
                    res.event(step, kind, "raised", "")
                    continue
                res.sim_steps += 1
                res.nops += 1
                try:
                    import copy as _copy
                    _copy.deepcopy(lib)
                except Exception as e:  # noqa
                    # "leaves the input library equal to its prior deep copy": a library produced by the
                    # shipped parse stacks must have a deep copy, or no copy-mode middleware can work on it
                    culprit = next((type(getattr(b, "error", None)).__name__ for b in lib.blocks
                                    if isinstance(b, M.ParsingFailedBlock) and not _copyable(b)), "?")
                    V("uncopyable", f"{type(e).__name__}/{culprit}", step,
                      f"a library parsed with stack {op['stack']!r} cannot be deep-copied ({type(e).__name__}: {e}); "
                      f"every copy-mode middleware and write_string raise on it")
                    return res
                libs.append(Pub(lib, 0, (op["stack"],), "library"))
                bl = lib.blocks
                if any(isinstance(b, M.DuplicateBlockKeyBlock) for b in bl):
                    res.probes["lib_with_duplicate_blocks"] += 1
                if any(isinstance(b, M.MiddlewareErrorBlock) for b in bl):
                    res.probes["lib_with_middleware_error_blocks"] += 1
                if any(type(b) is M.ParsingFailedBlock for b in bl):
                    res.probes["lib_with_failed_blocks"] += 1
                if any(isinstance(f.value, list) for b in lib.entries for f in b.fields):
                    res.probes["lib_with_list_values"] += 1
                res.event(step, kind, op["stack"], digest(libs[-1].fp, n=8))
                continue

            if not libs:
                res.skipped += 1
                res.event(step, kind, "skipped", "")
                continue

            if kind == "write":
                li = op["lib"] % len(libs)
                fi = None if op["fmt"] is None else op["fmt"] % len(fmts)
                lib = libs[li].obj
                f = None if fi is None else fmts[fi].obj
                label = "write_string"
                outcome = "ok"
                text = None
                try:
                    if op["via"] == "string":
                        text = EP.write_string(lib, bibtex_format=f)
                    elif op["via"] == "path":
                        label = "write_file(path)"
                        EP.write_file("out.bib", lib, bibtex_format=f)
                        text = disk.get("out.bib").decode("utf-8")
                    else:
                        label = "write_file(fileobj)"
                        import io
                        buf = io.StringIO()
                        EP.write_file(buf, lib, bibtex_format=f)
                        text = buf.getvalue()
                except Exception as e:  # noqa
                    outcome = "raised:" + type(e).__name__
                    res.probes["write_raised"] += 1
                res.sim_steps += 1
                res.nops += 1
                if not check_arena(step, label):
                    return res
                if text is not None:
                    key = (li, fi)
                    if key in written and written[key] != text:
                        V("rewrite", label, step, f"writing library #{li} with format #{fi} again gave different text")
                        return res
                    if key in written:
                        res.probes["same_pair_written_again"] += 1
                    written[key] = text
                    if f is not None and f.value_column == "auto":
                        res.probes["write_with_auto_format"] += 1
                res.nontrivial = True
                res.states.add(("write", classes(lib), outcome))
                res.event(step, label, outcome, "")
                continue

            if kind == "write_private":
                import copy
                lib = copy.deepcopy(libs[op["lib"] % len(libs)].obj)
                mw = [lambda: mws.NormalizeFieldKeys(allow_inplace_modification=True),
                      lambda: mws.SortFieldsAlphabeticallyMiddleware(allow_inplace_modification=True),
                      lambda: mws.MonthIntMiddleware(allow_inplace_modification=True)][op["mw"] % 3]()
                outcome = "ok"
                try:
                    if op["arg"] == "prepend":
                        EP.write_string(lib, prepend_middleware=[mw])
                    else:
                        EP.write_string(lib, unparse_stack=[mw])
                except Exception as e:  # noqa
                    outcome = "raised:" + type(e).__name__
                res.sim_steps += 1
                res.nops += 1
                res.probes["write_of_private_copy_with_inplace_middleware"] += 1
                if not check_arena(step, "write_string(private copy, in-place middleware)"):
                    return res
                res.event(step, "write_private", outcome, op["arg"])
                continue

            if kind == "transform":
                mi = op["mw"] % len(CATALOGUE)
                name, ctor = CATALOGUE[mi]
                if mi not in instances:
                    instances[mi] = ctor()
                mw = instances[mi]
                lref = op["lib"]
                if isinstance(lref, dict):
                    li = last_out.get(lref["last_out_of"] % len(CATALOGUE))
                    if li is None:
                        li = 0
                else:
                    li = lref % len(libs)
                inp = libs[li]
                own = name in inp.chain
                outcome = "ok"
                out = None
                try:
                    out = mw.transform(inp.obj)
                except Exception as e:  # noqa
                    outcome = "raised:" + type(e).__name__
                    res.probes["transform_raised"] += 1
                res.sim_steps += 1
                res.nops += 1
                res.nontrivial = True
                if not check_arena(step, f"{name}.transform"):
                    return res
                if out is not None:
                    if out is inp.obj:
                        V("alias", f"{name}/same-library-object", step, f"{name}(allow_inplace_modification=False).transform returned its input library object")
                        return res
                    sh = shared_mutables(out, inp.obj)
                    if sh:
                        a, b = sh[0]
                        what = a.rsplit(".", 1)[-1].split("[")[0]
                        V("alias", f"{name}/{what}", step,
                          f"output of {name}.transform shares {len(sh)} mutable object(s) with its input, e.g. output {a} is input {b}"
                          + (" (input is an earlier output of the same instance)" if own else ""))
                        return res
                    if own:
                        res.probes["instance_reapplied_to_own_output"] += 1
                    if inp.depth < 3:
                        libs.append(Pub(out, inp.depth + 1, inp.chain + (name,), "library"))
                        last_out[mi] = len(libs) - 1
                        if inp.depth + 1 == 3:
                            res.probes["stack_depth_3"] += 1
                res.states.add((inp.chain[1:] + (name,), classes(inp.obj), outcome))
                res.event(step, "transform:" + name, outcome, "" if out is None else digest(fingerprint(out), n=8))
                continue
            raise ValueError(kind)
    return res
