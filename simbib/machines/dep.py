"""M-DEP (C18): the third-party LaTeX converter behind the middleware's
constructor seam is replaced by a wrapper that fails chosen calls with chosen
exception kinds (real pylatexenc or a marker stub underneath).

Decided: scope ("only text values change"), type ("remain strings"), error
containment.  NOT decided: decode(encode(t)) == t.
"""
import copy

from .. import docgen
from ..engine import RunResult
from ..fingerprint import digest
from ..fingerprint import public_fingerprint as fingerprint
from ..repo import entrypoint as EP
from ..repo import model as M
from ..repo import mws
from ..repo import mwnames

NAME = "dep"
PROPS = ("C18",)

EXC_KINDS = ["ValueError:m", "KeyError:k", "IndexError:", "AssertionError:", "UnicodeError:u", "RecursionError:r",
             "LatexWalkerParseError", "TypeError:t", "ZeroDivisionError:", "Exception:", "RuntimeError:",
             # append only below (replay files refer to kinds by name): unusual argument shapes
             "KeyError#int", "OSError#errno", "RuntimeError#nested", "UnicodeDecodeError#5", "Exception#bytes", "Exception#tuple",
             "LookupError#zero", "StopIteration:", "Exception#none", "ValueError#two",
             "ValueError#leading-newline", "RuntimeError#blank-lines", "Exception#spaces"]


def make_exc(kind):
    if kind == "LatexWalkerParseError":
        from pylatexenc.latexwalker import LatexWalkerParseError
        return LatexWalkerParseError("simulated parse error", s="x", pos=0)
    special = {
        "KeyError#int": lambda: KeyError(8364),
        "OSError#errno": lambda: OSError(5, "simulated I/O error inside the converter"),
        "RuntimeError#nested": lambda: RuntimeError(ValueError("inner")),
        "UnicodeDecodeError#5": lambda: UnicodeDecodeError("utf-8", b"\xff", 0, 1, "invalid start byte"),
        "Exception#bytes": lambda: Exception(b"bytes message"),
        "Exception#tuple": lambda: Exception(("a", "tuple")),
        "LookupError#zero": lambda: LookupError(0),
        "Exception#none": lambda: Exception(None),
        "ValueError#two": lambda: ValueError("first", 2),
        "ValueError#leading-newline": lambda: ValueError("\nunexpected end of input\nOpen LaTeX blocks:\n  {"),
        "RuntimeError#blank-lines": lambda: RuntimeError("\n\n"),
        "Exception#spaces": lambda: Exception("   "),
    }
    if kind in special:
        return special[kind]()
    if kind == "StopIteration:":
        return StopIteration()
    name, _, msg = kind.partition(":")
    cls = {"ValueError": ValueError, "KeyError": KeyError, "IndexError": IndexError, "AssertionError": AssertionError,
           "UnicodeError": UnicodeError, "RecursionError": RecursionError, "TypeError": TypeError,
           "ZeroDivisionError": ZeroDivisionError, "Exception": Exception, "RuntimeError": RuntimeError}[name]
    return cls(msg) if msg else cls()


class Marker:
    """Stub converter: wraps its input once, so over- and under-conversion are both visible."""

    def unicode_to_latex(self, s):
        return "⟦" + s + "⟧"

    latex_to_text = unicode_to_latex


class FaultyConverter:
    """The seam: same interface as pylatexenc's encoder / decoder; fails the planned calls."""

    def __init__(self, inner, fail_calls, exc_kind):
        self.inner = inner
        self.fail = set(fail_calls)
        self.exc_kind = exc_kind
        self.calls = []          # (index, input, failed?)

    def _call(self, s, fn):
        i = len(self.calls)
        failed = i in self.fail
        self.calls.append((i, s, failed))
        if failed:
            raise make_exc(self.exc_kind)
        return fn(s)

    def unicode_to_latex(self, s):
        return self._call(s, self.inner.unicode_to_latex)

    def latex_to_text(self, s):
        return self._call(s, self.inner.latex_to_text)


class CallableFaultyConverter(FaultyConverter):
    """A converter object that also happens to be callable (a Mock is; so is any class with __call__).
    Only its unicode_to_latex / latex_to_text methods are the converter interface."""

    def __call__(self, *a, **kw):
        return {"called": "the converter object itself, not its method"}


def generate(rng, tier, prop):
    kn = docgen.draw_knobs(rng, tier, "utf-8")
    kn.update({"nblocks": rng.choice([1, 2, 3, 5, 8]) if rng.random() > (0.02 if tier == "quick" else 0.08) else rng.choice([40, 150]), "names": True, "collide": rng.random() < 0.15,
               "p_string": rng.choice([1.5, 3, 4]), "maxfields": rng.choice([2, 5, 8])})
    doc = docgen.make_doc(rng, kn)["text"]
    direction = rng.choice(["encode", "decode"])
    mode = rng.choice(["faulty", "faulty", "faulty", "options"])
    cfg = {"doc": doc, "stack": rng.choice(["default", "default", "names", "none"])}
    extra = []
    for _ in range(rng.randint(0, 3)):
        extra.append({"entry": rng.randrange(8), "key": rng.choice(["author", "editor", "x", "year", "keywords"]),
                      "kind": rng.choice(["nameparts", "nameparts", "nameparts_list", "str_list", "int", "none", "dup_field", "dup_field", "plain_str", "plain_str"])})
    ops = [{"op": "library", "extra_fields": extra}]
    if mode == "options":
        if direction == "encode":
            opts = {"keep_math": rng.choice([None, True, False]), "enclose_urls": rng.choice([None, True, False])}
        else:
            opts = {"keep_braced_groups": rng.choice([None, True, False]), "keep_math_mode": rng.choice([None, True, False])}
        ops.append({"op": "build", "direction": direction, "inner": "own", "options": opts, "inplace": rng.random() < 0.5})
        ops.append({"op": "transform", "fault_calls": [], "exc": None})
    else:
        ops.append({"op": "build", "direction": direction, "inner": rng.choice(["marker", "marker", "real"]), "options": {},
                    "inplace": rng.random() < 0.5, "callable": rng.random() < 0.3})
        # the same long-lived instance is used for several libraries (the first is re-built from the same text, so the
        # same values come back): what an earlier call left behind in the instance must not show in a later one
        for t in range(rng.choice([1, 1, 2, 3])):
            nf = rng.choice([0, 1, 1, 1, 2, 3]) if t == 0 else rng.choice([0, 0, 1])
            span = rng.choice([4, 12, 40])
            if t > 0:
                ops.append({"op": "library", "extra_fields": extra})
            ops.append({"op": "transform", "fault_calls": sorted({rng.randrange(span) for _ in range(nf)}), "exc": rng.choice(EXC_KINDS)})
    return {"config": cfg, "ops": ops}


def _text_slots(block):
    """(path, value) of every text value the middleware may legitimately change."""
    out = []
    if isinstance(block, M.Entry):
        for f in block.fields:
            if isinstance(f.value, str):
                out.append((("field", f.key), f.value))
            elif isinstance(f.value, mwnames.NameParts):
                for part in ("first", "last", "von", "jr"):
                    for i, s in enumerate(getattr(f.value, part)):
                        out.append((("namepart", f.key, part, i), s))
    elif isinstance(block, M.String):
        if isinstance(block.value, str):
            out.append((("string",), block.value))
    return out


def _mask_graph(o, seen, depth=0):
    """Mask, in place, the text values of every Entry / String reachable from o."""
    if id(o) in seen or depth > 60 or isinstance(o, (str, int, float, type(None), BaseException, type)):
        return
    seen.add(id(o))
    if isinstance(o, (M.Entry, M.String)):
        # the statement lists keys, types, other blocks, raw text and start lines as untouched;
        # the middleware's own metadata on the blocks it converts is not listed, so it is masked too
        try:
            o.parser_metadata.clear()        # (through the public accessor: private attribute names are not ours to rely on)
        except Exception:  # noqa
            pass
    if isinstance(o, M.Entry):
        for f in o.fields:
            if isinstance(f.value, str):
                f.value = "<T>"
            elif isinstance(f.value, mwnames.NameParts):
                for part in ("first", "last", "von", "jr"):
                    setattr(f.value, part, ["<T>"] * len(getattr(f.value, part)))
    elif isinstance(o, M.String):
        if isinstance(o.value, str):
            o.value = "<T>"
    if isinstance(o, (list, tuple, set)):
        for x in o:
            _mask_graph(x, seen, depth + 1)
    elif isinstance(o, dict):
        for x in o.values():
            _mask_graph(x, seen, depth + 1)
    else:
        from ..fingerprint import attrs
        for x in (attrs(o) or {}).values():
            _mask_graph(x, seen, depth + 1)


def _masked(block):
    """Fingerprint of a block with the legitimately changeable text values (its own and those
    of blocks it refers to, e.g. a duplicate wrapper's previous block) masked."""
    b = copy.deepcopy(block)
    _mask_graph(b, set())
    return fingerprint(b)


def execute(run, props):
    res = RunResult()
    cfg = run["config"]
    lib = None
    mw = None
    conv = None
    inner = None
    build = None

    def V(clause, sig, step, msg):
        res.violate("C18", clause, f"C18/{clause}/{sig}", step, msg)

    for step, op in enumerate(run["ops"]):
        kind = op["op"]
        res.nops += 1
        if kind == "library":
            kw = {"default": {}, "none": {"parse_stack": []},
                  "names": {"append_middleware": [mws.SeparateCoAuthors(), mws.SplitNameParts()]}}[cfg["stack"]]
            try:
                lib = EP.parse_string(cfg["doc"], **kw)
            except Exception:
                res.precondition_miss += 1
                return res
            ents = lib.entries
            for x in op["extra_fields"]:
                if not ents:
                    break
                e = ents[x["entry"] % len(ents)]
                if x["kind"] == "nameparts":
                    v = mwnames.NameParts(first=["Jean", "{\\'E}"], von=["de", "la"], last=["Fontaine"], jr=["Jr."])
                elif x["kind"] == "nameparts_list":
                    v = [mwnames.NameParts(first=["A"], last=["B"]), mwnames.NameParts(last=["C"])]
                elif x["kind"] == "str_list":
                    v = ["one", "two"]
                elif x["kind"] == "int":
                    v = 1999
                elif x["kind"] == "plain_str":
                    v = "set in code, no start line"
                elif x["kind"] == "dup_field":
                    # an entry taken out of a duplicate-field block: the same field key twice
                    strs = [f for f in e.fields if isinstance(f.value, str)]
                    if strs:
                        f0 = strs[x["entry"] % len(strs)]
                        e.fields.insert(e.fields.index(f0) + (x["entry"] % 2), M.Field(f0.key, "second value for this key"))
                    continue
                else:
                    v = None
                e.set_field(M.Field(x["key"], v))
            # make every text value unique, so a failed converter call identifies its site
            n = 0
            for b in lib.blocks:
                if isinstance(b, M.Entry):
                    for f in b.fields:
                        if isinstance(f.value, str):
                            n += 1
                            f.value = f"{f.value} ~u{n}"
                        elif isinstance(f.value, mwnames.NameParts):
                            for part in ("first", "last", "von", "jr"):
                                lst = getattr(f.value, part)
                                for i in range(len(lst)):
                                    n += 1
                                    lst[i] = f"{lst[i]}~u{n}"
                elif isinstance(b, M.String) and isinstance(b.value, str):
                    n += 1
                    b.value = f"{b.value} ~u{n}"
            res.event(step, "library", cfg["stack"], str(n))
            continue

        if kind == "build":
            build = op
            direction = op["direction"]
            try:
                if op["inner"] == "own":
                    o = {k: v for k, v in op["options"].items() if v is not None}
                    if direction == "encode":
                        mw = mws.LatexEncodingMiddleware(allow_inplace_modification=op["inplace"], **o)
                    else:
                        mw = mws.LatexDecodingMiddleware(allow_inplace_modification=op["inplace"], **o)
                    conv = None
                else:
                    if op["inner"] == "marker":
                        inner = Marker()
                    elif direction == "encode":
                        from pylatexenc.latexencode import UnicodeToLatexEncoder
                        inner = UnicodeToLatexEncoder()
                    else:
                        from pylatexenc.latex2text import LatexNodes2Text
                        inner = LatexNodes2Text()
                    conv = (CallableFaultyConverter if op.get("callable") else FaultyConverter)(inner, [], None)
                    if direction == "encode":
                        mw = mws.LatexEncodingMiddleware(encoder=conv, allow_inplace_modification=op["inplace"])
                    else:
                        mw = mws.LatexDecodingMiddleware(decoder=conv, allow_inplace_modification=op["inplace"])
            except Exception as e:  # noqa
                V("construct", f"{direction}/{type(e).__name__}", step, f"constructing the middleware raised {e!r}")
                return res
            res.event(step, "build", direction + ":" + op["inner"], "")
            continue

        if kind == "transform":
            if lib is None or mw is None:
                res.skipped += 1
                continue
            direction = build["direction"]
            if conv is not None:
                conv.fail = set(op["fault_calls"])
                conv.exc_kind = op["exc"]
                conv.calls = []
            try:
                orig = copy.deepcopy(lib)
            except Exception:
                res.precondition_miss += 1    # a library that cannot be deep-copied is C07's matter
                res.event(step, "transform", "uncopyable-library", "")
                return res
            res.sim_steps += 1
            try:
                out = mw.transform(lib)
            except Exception as e:  # noqa
                V("containment", f"exception-escaped/{type(e).__name__}", step,
                  f"{type(mw).__name__}.transform raised {e!r} (converter faults {op['fault_calls']} {op['exc']})")
                return res
            failed_inputs = [s for (_, s, f) in (conv.calls if conv else []) if f]
            for _ in failed_inputs:
                res.faults[str(op["exc"])] += 1
            if not isinstance(out, EP.Library):
                V("type", "not-a-library", step, f"transform returned {type(out).__name__}")
                return res
            ob, nb = orig.blocks, out.blocks
            if len(ob) != len(nb):
                V("scope", "block-count", step, f"{len(ob)} blocks in, {len(nb)} blocks out")
                return res
            sites = set()
            for k, (o, n_) in enumerate(zip(ob, nb)):
                o_slots = _text_slots(o)
                hit = [(p, v) for (p, v) in o_slots if v in failed_inputs]
                label = type(o).__name__
                inner_blk = n_
                if isinstance(o, (M.Entry, M.String)) and isinstance(n_, M.MiddlewareErrorBlock) and not isinstance(o, M.MiddlewareErrorBlock):
                    inner_blk = n_.ignore_error_block
                    if not hit:
                        if conv is not None:
                            V("containment", f"error-block-without-failure/{label}", step,
                              f"block {k} ({label} {getattr(o, 'key', '')!r}) became a middleware-error block although no conversion of its values failed: {n_.error!r}")
                            return res
                        res.probes["real_converter_reported_error"] += 1
                    if n_.error is None or n_.raw != o.raw or n_.start_line != o.start_line:
                        V("containment", f"error-block-incomplete/{label}", step, f"middleware-error block {k} lacks error / raw / start line of its entry")
                        return res
                if hit:
                    site = hit[0][0][0]
                    sites.add(site)
                    res.faults_eff[str(op["exc"])] += len(hit)
                    if isinstance(o, M.Entry):
                        if not isinstance(n_, M.MiddlewareErrorBlock):
                            msg_kind = "empty-message" if str(make_exc(op["exc"])) == "" else "with-message"
                            V("containment", f"no-error-block/{site}/{msg_kind}", step,
                              f"converting {hit[0][0]} of entry {o.key!r} failed with {op['exc']} but the result is a plain {type(n_).__name__}: the failure is silently swallowed")
                            return res
                        if not isinstance(inner_blk, M.Entry):
                            V("containment", "error-block-holds-no-entry", step, f"middleware-error block {k} holds {type(inner_blk).__name__}")
                            return res
                    else:
                        if not isinstance(inner_blk, M.String) or not isinstance(inner_blk.value, str):
                            V("type", "string-value-not-str-after-failure", step,
                              f"@string {o.key!r}: after a failed conversion its value is {type(getattr(inner_blk, 'value', None)).__name__}")
                            return res
                # type + exact conversion
                n_slots = _text_slots(inner_blk)
                if len(n_slots) != len(o_slots):
                    which = "string" if isinstance(o, M.String) else "entry"
                    V("type", f"text-value-no-longer-str/{which}", step,
                      f"block {k} ({label} {getattr(o, 'key', '')!r}): {len(o_slots)} text values in, {len(n_slots)} str values out "
                      f"(e.g. {getattr(inner_blk, 'value', None)!r})"[:600])
                    return res
                # scope: everything but the text values is untouched
                if type(inner_blk) is not type(o) or _masked(inner_blk) != _masked(o):
                    V("scope", f"non-text-changed/{label}", step,
                      f"block {k} ({label} {getattr(o, 'key', '')!r}): something other than its text values changed "
                      f"(class {type(inner_blk).__name__}; keys, types, raw, start lines, metadata, non-text values must be untouched)")
                    return res
                for (p, ov), (_, nv) in zip(o_slots, n_slots):
                    if ov in failed_inputs:
                        if nv != ov:
                            V("containment", "faulted-value-not-original", step, f"{p}: conversion failed but the value is {nv!r}, the original was {ov!r}")
                            return res
                        continue
                    if conv is not None:
                        if hit and nv == ov:
                            continue   # partially applied inside an error block: accepted
                        want = inner.unicode_to_latex(ov) if direction == "encode" else inner.latex_to_text(ov)
                        if nv != want:
                            what = "unconverted" if nv == ov else ("converted-twice" if isinstance(inner, Marker) and nv.count("⟦") > 1 else "wrong")
                            V("scope", f"text-value-{what}/{p[0]}", step, f"{p} of block {k}: got {nv!r}, the converter gives {want!r} for {ov!r}")
                            return res
            if conv is not None:
                # nothing but text values may have been handed to the converter
                all_text = {v for b in ob for (_, v) in _text_slots(b)}
                for (_, s, _f) in conv.calls:
                    if s not in all_text:
                        V("scope", "non-text-handed-to-converter", step, f"the converter was called with {s!r}, which is not a text value of any block")
                        return res
            if not build["inplace"] and fingerprint(lib) != fingerprint(orig):
                V("scope", "input-mutated-in-copy-mode", step, "allow_inplace_modification=False but the input library changed")
                return res
            ntrans = sum(1 for o in run["ops"][:step] if o["op"] == "transform")
            if ntrans:
                res.probes["instance_reused_for_another_library"] += 1
            for s in sites:
                res.probes["fault_in_" + s] += 1
            if not failed_inputs and op["fault_calls"]:
                res.probes["planned_fault_beyond_last_call"] += 1
            res.nontrivial = True
            res.states.add((direction, build["inner"], op["exc"] if failed_inputs else None, tuple(sorted(sites)), build["inplace"],
                            tuple(sorted((k, v) for k, v in build["options"].items() if v is not None))))
            res.event(step, "transform:" + direction + ":" + build["inner"], (op["exc"] or "none") + ":" + str(len(failed_inputs)) + ":" + digest(fingerprint(out), n=8), "")
            continue
        raise ValueError(kind)
    return res
