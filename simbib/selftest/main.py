"""./check selftest [--setup] [--n N]

Determinism: for every registered machine, the same run indices are executed
 (a) twice in this interpreter,
 (b) once in a fresh interpreter under another PYTHONHASHSEED,
 (c) through the parallel runner with 1 worker and with 16 workers,
and every event-log digest must be identical.  --setup is the short form used
by MANIFEST.setup_cmd.
"""
import json
import os
import random
import subprocess
import sys


def _rt(spec, tier):
    rt = spec["run_timeout"]
    return rt[tier] if isinstance(rt, dict) else rt


def digests(machine, prop, tier, seed, indices):
    from ..engine import get_machine, run_seed
    mach = get_machine(machine)
    out = []
    for i in indices:
        rng = random.Random(run_seed(seed, machine, prop, tier, i))
        run = mach.generate(rng, tier, prop)
        run["machine"] = machine
        res = mach.execute(run, (prop,))
        out.append(res.digest() + ":" + ",".join(sorted(v["signature"] for v in res.violations)))
    return out


def child(argv):
    machine, prop, tier, seed, n = argv[0], argv[1], argv[2], int(argv[3]), int(argv[4])
    from .. import repo  # noqa: F401
    print(json.dumps(digests(machine, prop, tier, seed, range(n))))
    return 0


def sensitivity(argv):
    """Apply each catalogued mutation to a scratch copy and demand that the check reports it
    and that the replay file it wrote reproduces in a fresh process."""
    import glob
    import shutil
    import tempfile
    from .mutants import CATALOGUE
    only = argv[argv.index("--only") + 1] if "--only" in argv else None
    here = os.path.dirname(os.path.dirname(os.path.dirname(os.path.abspath(__file__))))
    check = os.path.join(here, "check")
    repo = os.path.realpath(os.environ.get("VERIF_REPO", "/repo"))
    ok = True
    caught = 0
    for n, (prop, rel, old, new, runs) in enumerate(CATALOGUE):
        if only and prop != only:
            continue
        d = tempfile.mkdtemp(prefix="simbib_mut_")
        try:
            shutil.copytree(os.path.join(repo, "bibtexparser"), os.path.join(d, "bibtexparser"))
            path = os.path.join(d, rel)
            src = open(path).read()
            if src.count(old) != 1:
                print(f"SELFTEST-FAIL sensitivity #{n} {prop} {rel}: pattern occurs {src.count(old)} times (catalogue out of date)")
                ok = False
                continue
            open(path, "w").write(src.replace(old, new))
            env = dict(os.environ, VERIF_REPO=d, VERIF_REPLAY_DIR=os.path.join(d, "replays"))
            r = subprocess.run([check, prop, "--no-evidence", "--runs", str(runs)], env=env, capture_output=True, text=True, timeout=1800)
            lines = [l for l in r.stdout.splitlines() if l.startswith("VIOLATION")]
            if r.returncode != 1 or not lines:
                print(f"SELFTEST-FAIL sensitivity #{n} {prop} {rel}: mutant survived {runs} runs (exit {r.returncode}): {new[:70]!r}")
                ok = False
                continue
            rp = lines[0].split("replay=")[1].strip()
            r2 = subprocess.run([check, prop, "--replay", rp], env=env, capture_output=True, text=True, timeout=600)
            if r2.returncode != 1:
                print(f"SELFTEST-FAIL sensitivity #{n} {prop}: replay {os.path.basename(rp)} did not reproduce in a fresh process (exit {r2.returncode})")
                ok = False
                continue
            caught += 1
            sig = next((l for l in r.stdout.splitlines() if l.startswith("violation:")), "")[:110]
            print(f"sensitivity #{n} {prop} caught + replayed: {sig}")
        finally:
            shutil.rmtree(d, ignore_errors=True)
    print(f"selftest sensitivity: {caught} mutants caught;", "ok" if ok else "FAILED")
    return 0 if ok else 2


def main(argv):
    if argv and argv[0] == "--child":
        return child(argv[1:])
    if "--sensitivity" in argv:
        return sensitivity(argv)
    setup = "--setup" in argv
    n = 40 if setup else 200
    if "--n" in argv:
        n = int(argv[argv.index("--n") + 1])
    from .. import engine, registry
    from .. import repo  # noqa: F401
    import jsonschema  # noqa: F401  (only to fail early if evidence validation is wanted later)
    ok = True
    seen = set()
    for prop in sorted(registry.CHECKS):
        spec = registry.CHECKS[prop]
        machine = spec["machine"]
        for tier in (("quick",) if setup else ("quick", "thorough")):
            seed = 7
            a = digests(machine, prop, tier, seed, range(n))
            b = digests(machine, prop, tier, seed, range(n))
            env = dict(os.environ, PYTHONHASHSEED="4242" if os.environ.get("PYTHONHASHSEED") != "4242" else "1")
            out = subprocess.run(
                [sys.executable, "-m", "simbib.cli", "selftest", "--child", machine, prop, tier, str(seed), str(n)],
                env=env, capture_output=True, text=True, timeout=1200)
            try:
                c = json.loads(out.stdout.strip().splitlines()[-1])
            except Exception:
                print(f"SELFTEST-FAIL {prop}/{tier}: child interpreter failed: {out.stderr[-800:]}")
                ok = False
                continue
            # order independence: the same runs executed in reverse order in this process (a run must not depend on
            # what the process did before it: recycled ids, module-level state, caches)
            import random as _r
            from ..engine import get_machine as _gm, run_seed as _rs
            _m = _gm(machine)
            rev = {}
            for i in reversed(range(n)):
                rng_ = _r.Random(_rs(seed, machine, prop, tier, i))
                run_ = _m.generate(rng_, tier, prop)
                run_["machine"] = machine
                res_ = _m.execute(run_, (prop,))
                rev[i] = res_.digest() + ":" + ",".join(sorted(v["signature"] for v in res_.violations))
            if any(rev[i] != a[i] for i in range(n)):
                print(f"SELFTEST-FAIL order independence {prop}/{tier}: run indices {[i for i in range(n) if rev[i] != a[i]][:10]} give another digest when executed in reverse order")
                ok = False
            if a != b or a != c:
                bad = [i for i in range(n) if not (a[i] == b[i] == c[i])]
                print(f"SELFTEST-FAIL determinism {prop}/{tier}: run indices {bad[:10]} differ (same-interpreter {a != b}, fresh-interpreter {a != c})")
                ok = False
            else:
                print(f"selftest determinism {prop}/{tier}: {n} runs x3 identical (fresh interpreter under PYTHONHASHSEED={env['PYTHONHASHSEED']})")
            if not setup and (machine, tier) not in seen:
                seen.add((machine, tier))
                ex = dict(spec["extra"])
                c1, s1 = engine.run_check(prop, machine, tier, seed, 600, 50, 600, _rt(spec, tier), ex, workers=1, write_evidence=False, quiet=True)
                c2, s2 = engine.run_check(prop, machine, tier, seed, 600, 50, 600, _rt(spec, tier), ex, workers=16, write_evidence=False, quiet=True)
                if s1["digest"] != s2["digest"] or c1 != c2:
                    print(f"SELFTEST-FAIL worker-count independence {prop}/{tier}: {s1['digest']} vs {s2['digest']}")
                    ok = False
                else:
                    print(f"selftest worker-count independence {prop}/{tier}: aggregate digest {s1['digest']} with 1 and 16 workers")
    print("selftest", "ok" if ok else "FAILED")
    return 0 if ok else 2
