"""Sensitivity catalogue: small textual mutations of the code under test that break
one property each.  `./check selftest --sensitivity` applies each to a scratch copy
(mktemp, removed afterwards) and demands that the property's check reports it.

(prop, relative file, old text, new text, runs)
"""

CATALOGUE = [
    # ---- C01
    ("C01", "bibtexparser/splitter.py",
     '        while m is not None and m.group(0) == "\\n":\n            self._current_line += 1\n            m = next(self._markiter, None)\n',
     '        if m is not None and m.group(0) == "\\n":\n            self._current_line += 1\n            return self._next_mark(accept_eof=accept_eof)\n', 4000),
    ("C01", "bibtexparser/splitter.py", '|@[\\w]*( |\\t)*(?={)"', '|@[\\w]*( |\\t)*"', 3000),
    ("C01", "bibtexparser/exceptions.py", "    def __deepcopy__(self, memo):\n", "    def _unused_deepcopy(self, memo):\n", 3000),
    ("C01", "bibtexparser/writer.py", "    lines = len(block.raw.splitlines())", "    lines = len(block.raw.splitlines()); assert lines < 40", 6000),
    ("C01", "bibtexparser/splitter.py", "                except BlockAbortedException as e:", "                except RegexMismatchException as e:", 2000),
    # ---- C03
    ("C03", "bibtexparser/splitter.py", "        self._current_line = -1", "        self._current_line = 0", 2000),
    ("C03", "bibtexparser/splitter.py", "                start_line=self._implicit_comment_start_line + leading_empty_lines,",
     "                start_line=self._implicit_comment_start_line,", 2000),
    ("C03", "bibtexparser/splitter.py", "            raw=self.bibstr[start_i : end_i + 1],", "            raw=self.bibstr[start_i:end_i],", 2000),
    ("C03", "bibtexparser/splitter.py", "                    next_implicit_comment_start = e.end_index\n", "                    pass\n", 4000),
    ("C03", "bibtexparser/splitter.py", '[\\{\\}\\",=]|\\n|@', '[\\{\\}\\",=\\n]|@', 6000),
    ("C03", "bibtexparser/splitter.py", "            start_line = self._current_line\n            key_end = equals_mark.start()",
     "            start_line = self._current_line + (1 if len(result) > 6 else 0)\n            key_end = equals_mark.start()", 8000),
    # (_reset_block_status only matters for the implicit comment's start and start line: a C03 mutant, not a C04 one)
    ("C03", "bibtexparser/splitter.py",
     "                self._reset_block_status(current_char_index=next_implicit_comment_start)",
     "                self._implicit_comment_start = next_implicit_comment_start", 6000),
    # ---- C04
    ("C04", "bibtexparser/splitter.py",
     '            elif m.group(0).startswith("@"):\n                self._unaccepted_mark = m\n                raise BlockAbortedException(\n                    abort_reason=f"Unexpected block start: `{m.group(0)}`. "\n                    f"Was still looking for closing bracket",',
     '            elif m.group(0).startswith("@") and num_additional_brackets == 0:\n                self._unaccepted_mark = m\n                raise BlockAbortedException(\n                    abort_reason=f"Unexpected block start: `{m.group(0)}`. "\n                    f"Was still looking for closing bracket",', 6000),
    ("C04", "bibtexparser/splitter.py",
     '            elif next_mark.group(0).startswith("@"):\n                self._unaccepted_mark = next_mark\n',
     '            elif next_mark.group(0).startswith("@"):\n', 4000),
    # ---- C05
    ("C05", "bibtexparser/middlewares/parsestack.py", '            default_enclosing="{",', "            default_enclosing='\"',", 3000),
    ("C05", "bibtexparser/writer.py", "        if bibtex_format.trailing_comma or i < len(block.fields) - 1:", "        if bibtex_format.trailing_comma and i < len(block.fields) - 1:", 3000),
    ("C05", "bibtexparser/writer.py", '    return [f"@preamble{{{block.value}}}\\n"]', '    return [f"@preamble{{{block.value.strip()}}}\\n"]', 3000),
    ("C05", "bibtexparser/entrypoint.py", '        with open(file, "w") as f:', '        with open(file, "a") as f:', 3000),
    ("C05", "bibtexparser/middlewares/enclosing.py", '        if value.startswith("{") and value.endswith("}"):\n            return value[1:-1], "{"',
     '        if value.startswith("{{") and value.endswith("}}"):\n            return value[2:-2], "{"\n        if value.startswith("{") and value.endswith("}"):\n            return value[1:-1], "{"', 3000),
    # ---- C07
    ("C07", "bibtexparser/middlewares/middleware.py", "        block = block if self.allow_inplace_modification else deepcopy(block)", "        block = block", 2000),
    ("C07", "bibtexparser/entrypoint.py", "        unparse_stack = default_unparse_stack(allow_inplace_modification=False)", "        unparse_stack = default_unparse_stack(allow_inplace_modification=True)", 2000),
    ("C07", "bibtexparser/writer.py", "        bibtex_format = deepcopy(bibtex_format)\n", "", 2000),
    ("C07", "bibtexparser/middlewares/sorting_blocks.py", "        blocks = deepcopy(library.blocks)", "        blocks = list(library.blocks)", 2000),
    ("C07", "bibtexparser/middlewares/interpolate.py", "            library = deepcopy(library)", "            pass", 2000),
    ("C07", "bibtexparser/middlewares/sorting_entry_fields.py", "= list(self._order)", "= self._order", 6000),
    # ---- C08
    ("C08", "bibtexparser/library.py", "                prev_block_with_same_key = self._entries_by_key[block.key]\n                block = self._cast_to_duplicate(prev_block_with_same_key, block)",
     "                prev_block_with_same_key = self._entries_by_key[block.key]\n                self._entries_by_key[block.key] = block\n                block = self._cast_to_duplicate(prev_block_with_same_key, block)", 3000),
    ("C08", "bibtexparser/library.py", "        self._blocks.insert(index, block_after_add)", "        self._blocks.append(block_after_add)", 3000),
    ("C08", "bibtexparser/library.py", "            if isinstance(block, Entry):\n                    del self._entries_by_key[block.key]", "            if False:\n                    del self._entries_by_key[block.key]", 3000),
    ("C08", "bibtexparser/library.py", "            self.replace(block_after_add, old_block, fail_on_duplicate_key=False)\n", "", 3000),
    ("C08", "bibtexparser/library.py", "        return [b for b in self._blocks if isinstance(b, Entry)]", "        return list(self._entries_by_key.values())", 3000),
    ("C08", "bibtexparser/library.py", "            self._blocks[:] = blocks_before\n", "", 3000),
    # ---- C18
    ("C18", "bibtexparser/middlewares/latex_encoding.py", "            string.value, e = self._transform_python_value_string(string.value)", "            string.value = self._transform_python_value_string(string.value); e = \"\"", 2000),
    ("C18", "bibtexparser/middlewares/latex_encoding.py", "            return python_string, str(e) or repr(e)\n\n\nclass LatexDecodingMiddleware", "            return python_string, str(e)\n\n\nclass LatexDecodingMiddleware", 6000),
    ("C18", "bibtexparser/middlewares/latex_encoding.py", "                field.value.jr = self._transform_all_strings(field.value.jr, errors)", "                field.value.jr = self._transform_all_strings(field.value.last, errors)", 4000),
    # ---- C19
    ("C19", "bibtexparser/model.py", "            self._fields[i] = field", "            self._fields.pop(i); self._fields.append(field)", 3000),
    ("C19", "bibtexparser/model.py", "        self._fields = [f for f in self._fields if f.key != key]\n        return field", "        return field", 3000),
    ("C19", "bibtexparser/model.py", "        return key in self.fields_dict", "        return key.lower() in {k.lower() for k in self.fields_dict}", 3000),
    ("C19", "bibtexparser/model.py",
     "            isinstance(other, self.__class__)\n            and isinstance(self, other.__class__)\n            and self.__dict__ == other.__dict__\n        )\n\n    def __str__(self):\n        return f\"Field",
     "            isinstance(other, self.__class__)\n            and isinstance(self, other.__class__)\n            and (self._key, self._value) == (other._key, other._value)\n        )\n\n    def __str__(self):\n        return f\"Field", 3000),
    # ---- C20
    ("C20", "bibtexparser/entrypoint.py", "    return list(parse_stack) + list(append_middleware)", "    return list(append_middleware) + list(parse_stack)", 4000),
    ("C20", "bibtexparser/entrypoint.py", "    with open(path, encoding=encoding) as f:", "    with open(path) as f:", 4000),
    ("C20", "bibtexparser/entrypoint.py", "    with open(path, encoding=encoding) as f:", '    with open(path, encoding=encoding, errors="ignore") as f:', 4000),
    ("C20", "bibtexparser/entrypoint.py", '        with open(file, "w") as f:', '        with open(file, "a") as f:', 4000),
    ("C20", "bibtexparser/entrypoint.py", "        unparse_stack=parse_stack,\n        prepend_middleware=append_middleware,", "        unparse_stack=append_middleware,\n        prepend_middleware=parse_stack,", 4000),
    ("C20", "bibtexparser/middlewares/middleware.py", "                blocks.extend(transformed)", "                blocks.append(transformed)", 4000),
    ("C20", "bibtexparser/entrypoint.py", "    append_middleware = list(append_middleware)\n", "", 6000),
    ("C20", "bibtexparser/entrypoint.py", '        with open(file, "w") as f:\n            f.write(bibtex_str)', '        f = open(file, "w")\n        f.write(bibtex_str)', 4000),
    # ---- state kept between calls (needs a *session* replay: earlier run(s) of the same process, then the failing run)
    ("C18", "bibtexparser/middlewares/latex_encoding.py", '            return self._encoder.unicode_to_latex(python_string), ""\n',
     '            memo = logger.__dict__.setdefault("_memo", {})\n            if python_string not in memo:\n                memo[python_string] = self._encoder.unicode_to_latex(python_string)\n            return memo[python_string], ""\n', 6000),
    ("C07", "bibtexparser/entrypoint.py",
     "        unparse_stack = default_unparse_stack(allow_inplace_modification=False)\n\n    if prepend_middleware is None:\n",
     "        unparse_stack = globals().setdefault('_cached', default_unparse_stack(allow_inplace_modification=False))\n"
     "        if prepend_middleware is not None:\n            unparse_stack[:0] = list(prepend_middleware)\n        return unparse_stack\n\n    if prepend_middleware is None:\n", 4000),
]
