"""Workload documents: .bib text derived from the dialect grammar of DESIGN.md
section 2.4, with the character span of every block.

docgen acts as the *foreign tool* that writes files with free layout; the
library's own writer produces the other family (writer normal form).

make_doc(rng, knobs) -> {"text": str, "blocks": [ {kind, span:[s,e], ...} ]}
Everything is drawn from the rng passed in.
"""

WORDS = ["alpha", "Beta", "gamma", "delta", "On", "the", "of", "Graphs", "theory", "A", "z", "x1", "und", "de", "la", "IEEE", "Proc."]
NONASCII = ["é", "ü", "Ångström", "ß", "naïve", "Müller", "日本", "語", "é", "Ž", "ø"]
LATIN1 = ["é", "ü", "Ångström", "ß", "naïve", "Müller", "ø"]
SPECIAL = ["\\\\{x\\}", " = ", ",\n", "{x}\n", "@string", "@comment", "% WARNING Parsing failed for the following 1 lines.", r"\'e", r"\"o", r"\&", r"\\", r"\%", "e-mail@host.org", "$x^2$", "$a_{i}$", "http://ex.org/a?b=1,c", "a,b", "x=y", "50\\%", "~", "--", "#", "@", "{\\'E}x", "\\{", "\\}", '\\"']
TYPES = ["article", "book", "Article", "inproceedings", "MISC", "techreport", "a", "x_1", "online"]
# \w matches far more than ASCII: entry types (and keys) in other scripts, with case mappings that change length
UTYPES = ["artículo", "Статья", "İnproceedings", "İNPROCEEDINGS", "BOOK_ß", "論文", "ǅemal", "ﬁle", "２０２０", "Ångström",
          "ſtring", "strıng", "STRİNG", "ſtrıng", "cоmment", "prеamble", "misc²"]      # look-alikes of the reserved types are ordinary entry types
UKEYS = ["Müller2020", "陳:2019", "İstanbul", "straße", "Ǆ1", "é", "ﬁ", "Σίσυφος", "x̃"]
FKEYS = ["title", "author", "year", "journal", "month", "pages", "note", "url", "Title", "editor", "x-y", "f_1", "volume", "abstract", "doi",
         "ID", "ENTRYTYPE", "a\\{b", "x y", "ключ", "k\\}"]
STRKEYS = ["jan", "acm", "ieee", "me", "pub", "long_name", "S1"]
KEYCHARS = "abcdefghijklmnopqrstuvwxyzABCXYZ0123456789_:.-/+"

import re

_AT = re.compile(r"@(\w*)([ \t]*)\{")


def desplice(s):
    """Free text must not contain the splitter's block-start mark '@word{'."""
    return _AT.sub(lambda m: "@" + m.group(1) + m.group(2) + "-{", s)


DEFAULT_KNOBS = {
    "nblocks": 5, "nonascii": "none", "newline": "\n", "layout": "pretty", "collide": False,
    "p_entry": 6, "p_string": 1.5, "p_preamble": 0.7, "p_xcomment": 1, "p_icomment": 1.5,
    "maxfields": 5, "nest": 2, "multiline": 0.2, "concat": 0.15,
}


def _word(rng, k):
    r = rng.random()
    if r < 0.7:
        return rng.choice(WORDS)
    if r < 0.85:
        if k["nonascii"] == "any":
            return rng.choice(NONASCII)
        if k["nonascii"] == "latin1":
            return rng.choice(LATIN1)
        return rng.choice(WORDS)
    return rng.choice(SPECIAL)


def balanced(rng, k, depth=0, in_quotes=False, maxwords=6, bare_quote=False):
    """Text with balanced unescaped braces (splitter convention) that does not
    end in a backslash and contains no '@word{' and (in quotes) no bare '"'."""
    parts = []
    n = rng.randint(0 if depth else 1, maxwords)
    for _ in range(n):
        r = rng.random()
        if r < 0.15 and depth < k["nest"]:
            parts.append("{" + balanced(rng, k, depth + 1, in_quotes, 3, bare_quote) + "}")
        elif r < 0.15 + k["multiline"] * 0.5:
            if rng.random() < 0.15:
                parts.append("\\\\\n" + _word(rng, k))   # LaTeX line break at the end of a line: backslash-newline
            else:
                parts.append(rng.choice(["\n", "\n  ", "\n\t"]) + _word(rng, k))
        else:
            w = _word(rng, k)
            if in_quotes and w == '\\"':
                w = "q"
            if bare_quote and w in ("A", "x1"):
                w = rng.choice(['3.5"', '"'])      # a bare double quote is ordinary text inside a brace-enclosed value
            parts.append(w)
    s = rng.choice([" ", " ", "  "]).join(parts) if parts else ""
    s = desplice(s)
    # never let a backslash directly precede a structural delimiter
    if s.endswith("\\"):
        s += "x"
    if k["newline"] != "\n":
        s = s.replace("\n", k["newline"])
    return s


FIRST = ["Donald", "E.", "Per", "Jean-Paul", "{\\'E}douard", "J.", "Ludwig", "mary"]
VON = ["van", "de", "la", "von", "der"]
LAST = ["Knuth", "Brinch Hansen", "Beethoven", "{Barnes and Noble}", "M{\\\"u}ller", "Sartre", "O'Neil"]
JR = ["Jr.", "III"]


def name_list(rng, persons=None):
    names = []
    for _ in range(rng.randint(1, 4)):
        if persons is not None and persons and rng.random() < 0.6:
            names.append(rng.choice(persons))        # the same people write and edit several entries of one file
            continue
        f = " ".join(rng.sample(FIRST, rng.randint(1, 2)))
        v = rng.choice(VON) + " " if rng.random() < 0.3 else ""
        l = rng.choice(LAST)
        r = rng.random()
        if r < 0.4:
            names.append(f"{f} {v}{l}")
        elif r < 0.8:
            names.append(f"{v}{l}, {f}")
        elif r < 0.92:
            names.append(f"{v}{l}, {rng.choice(JR)}, {f}")
        else:
            names.append(rng.choice(["others", "Last,", "a, b, c, d", "{unbalanced", l]))
    if persons is not None and len(persons) < 4:
        persons.extend(n for n in names if n not in persons)
    return rng.choice([" and ", " and ", " AND ", "\n and "]).join(names)


def piece(rng, k, strkeys):
    r = rng.random()
    if r < 0.04:
        return rng.choice(["", "{}", '""', "{ }", "{{}}"])     # empty values are legal for the splitter
    pad = rng.choice(["", "", "", " ", "  ", "\n "]) if r > 0.5 else ""
    if r < 0.55:
        return "{" + pad + balanced(rng, k, bare_quote=True) + rng.choice(["", pad]) + "}"
    if r < 0.8:
        return '"' + pad + balanced(rng, k, in_quotes=True) + rng.choice(["", pad]) + '"'
    if r < 0.9:
        return str(rng.choice([0, 7, 12, 1999, 2024, 13]))
    return rng.choice(strkeys + STRKEYS[:3] + ["undefd"])


def value(rng, k, strkeys):
    v = piece(rng, k, strkeys)
    while rng.random() < k["concat"]:
        v += rng.choice([" # ", "#", " #\n "]).replace("\n", k["newline"]) + piece(rng, k, strkeys)
    return v


def _ws(rng, k, kind):
    nl = k["newline"]
    lay = k["layout"]
    if lay == "compact":
        return rng.choice(["", "", " "])
    if lay == "pretty":
        return {"pre_field": nl + "  ", "eq": " ", "end": nl, "sep": nl + nl}.get(kind, " ")
    # wild (incl. white space that is not ASCII: form feed, vertical tab, no-break space, line / paragraph separator)
    return rng.choice(["", " ", "\t", nl, nl + "  ", "  " + nl + nl + " "] * 3 + ["\x0c", "\x0b", "\u00a0", "\u2028", " \u2029" + nl, "\u3000"]
                      if k.get("uws") else ["", " ", "\t", nl, nl + "  ", "  " + nl + nl + " "])


def _key(rng, k, pool):
    if k["collide"] and pool and rng.random() < 0.4:
        return rng.choice(pool)
    n = rng.randint(1, 8)
    kk = "".join(rng.choice(KEYCHARS) for _ in range(n))
    if k["nonascii"] == "any" and rng.random() < 0.12:
        kk = rng.choice(UKEYS) + kk[:2]
    elif n > 2 and rng.random() < 0.06:
        kk = kk[:1] + " " + kk[1:]          # a key with a blank inside ("Smith 2020")
    if pool and rng.random() < k.get("casekeys", 0.0):
        kk = rng.choice(pool).swapcase()      # differs from an earlier key in letter case only (distinct keys in BibTeX files)
    while not k["collide"] and kk in pool:
        kk += rng.choice(KEYCHARS)
    pool.append(kk)
    return kk


def make_doc(rng, knobs=None):
    k = dict(DEFAULT_KNOBS)
    if knobs:
        k.update(knobs)
    nl = k["newline"]
    blocks = []
    out = []
    pos = 0
    entry_keys, string_keys = [], []
    persons = []
    cycle_partner = None
    last_kind = None
    weights = [("entry", k["p_entry"]), ("string", k["p_string"]), ("preamble", k["p_preamble"]),
               ("xcomment", k["p_xcomment"]), ("icomment", k["p_icomment"])]
    total = sum(w for _, w in weights)

    def emit(s):
        nonlocal pos
        out.append(s)
        pos += len(s)

    # leading whitespace
    emit(rng.choice(["", "", nl, " " + nl]))
    for bi in range(k["nblocks"]):
        r = rng.random() * total
        kind = weights[-1][0]
        for name, w in weights:
            if r < w:
                kind = name
                break
            r -= w
        if kind == "icomment" and last_kind == "icomment":
            kind = "entry"
        b = {"kind": kind}
        start = pos
        if kind == "entry":
            t = rng.choice(UTYPES) if k["nonascii"] == "any" and rng.random() < 0.15 else rng.choice(TYPES)
            key = _key(rng, k, entry_keys)
            emit("@" + t + rng.choice(["", "", " ", "\t"]) + "{" + _ws(rng, k, "x") + key)
            nf = rng.randint(0, k["maxfields"])
            fkeys = rng.sample(FKEYS, min(nf, len(FKEYS)))
            if k["collide"] and len(fkeys) >= 2 and rng.random() < k.get("dupfields", 0.0):
                fkeys[rng.randrange(1, len(fkeys))] = fkeys[0]      # a repeated field key -> duplicate-field block
            fields = []
            if nf == 0 and rng.random() < 0.5:
                pass  # "@type{key}" (RefTeX style)
            else:
                for fi, fk in enumerate(fkeys):
                    emit(_ws(rng, k, "x") + ",")
                    emit(_ws(rng, k, "pre_field"))
                    fstart = pos
                    seg = fk + _ws(rng, k, "eq")
                    emit(seg)
                    same_line = "\n" not in seg
                    eq_pos = pos
                    if k.get("names") and fk in ("author", "editor") and rng.random() < 0.85:
                        v = "{" + name_list(rng, persons) + "}"
                    elif k.get("names") and fk == "month" and rng.random() < 0.8:
                        v = rng.choice(["jan", "{February}", "3", "{12}", "\"dec\"", "13", "Mar", "{sept}"])
                    elif k.get("cycles") and string_keys and rng.random() < 0.35:
                        v = rng.choice(string_keys)             # a field that names one of those @strings
                    else:
                        v = value(rng, k, string_keys)
                    emit("=" + _ws(rng, k, "eq") + v)
                    fields.append({"key": fk, "value": v, "eq_pos": eq_pos, "key_pos": fstart, "same_line": same_line})
                if nf == 0 or rng.random() < 0.4:
                    emit(_ws(rng, k, "x") + ",")  # trailing comma / "@type{key,}"
            emit(_ws(rng, k, "end") + "}")
            b.update({"type": t.lower(), "key": key, "fields": fields})
        elif kind == "string":
            key = rng.choice(STRKEYS) if (k["collide"] or rng.random() < 0.5) else "s%d" % bi
            if not k["collide"] and key in string_keys:
                key = "s%d" % bi
            string_keys.append(key)
            # chains: a string may name an earlier string; with the cycles knob also itself or any other key
            v = value(rng, k, (list(string_keys) + STRKEYS) * 2 if k.get("cycles") else list(string_keys[:-1]) * 2)
            if k.get("cycles") and rng.random() < 0.6:
                v = rng.choice(string_keys + STRKEYS[:4])      # a bare name: alias chains, self-references and cycles between @strings
            if cycle_partner is not None:
                key, v = cycle_partner                         # closes a two-string cycle opened by the previous @string
                string_keys[-1] = key
                cycle_partner = None
            elif k.get("cycles") and rng.random() < 0.4:
                v = "cy%d" % bi                                 # names an @string that does not exist yet ...
                cycle_partner = ("cy%d" % bi, key)              # ... the next @string will define it as an alias of this one
            emit("@" + rng.choice(["string", "String", "STRING"]) + rng.choice(["", " "]) + "{" + _ws(rng, k, "x") + key
                 + _ws(rng, k, "eq") + "=" + _ws(rng, k, "eq") + v + _ws(rng, k, "x") + "}")
            b.update({"key": key, "value": v})
        elif kind == "preamble":
            v = rng.choice(['"', "{", ""])
            inner = balanced(rng, k, in_quotes=(v == '"'))
            body = (v + inner + {'"': '"', "{": "}", "": ""}[v])
            body = rng.choice(["", " "]) + body + rng.choice(["", " "])
            emit("@" + rng.choice(["preamble", "Preamble", "PREAMBLE"]) + "{" + body + "}")
            b.update({"value": body})
        elif kind == "xcomment":
            inner = balanced(rng, k)
            emit("@" + rng.choice(["comment", "Comment", "COMMENT"]) + rng.choice(["", " "]) + "{" + rng.choice(["", " "]) + inner + "}")
            b.update({"comment": inner.strip()})
        else:
            lines = []
            for _ in range(rng.randint(1, 3)):
                ws = [_word(rng, k) for _ in range(rng.randint(1, 6))]
                ln = " ".join(ws)
                if rng.random() < 0.3:
                    ln = rng.choice(["% ", "%% ", "# ", "// "]) + ln
                lines.append(ln)
            txt = nl.join(lines)
            if rng.random() < 0.3:
                txt += rng.choice([" {unbalanced", " }", ' "', " a = b,", " x@y"])
            txt = desplice(txt).strip()
            if txt.endswith("\\"):
                txt += "x"
            emit(txt)
            b.update({"comment": txt})
        b["span"] = [start, pos]
        blocks.append(b)
        last_kind = kind
        # separator
        if bi < k["nblocks"] - 1:
            if k["layout"] == "compact" and kind != "icomment" and rng.random() < 0.5:
                sep = rng.choice(["", " ", nl])
            else:
                sep = rng.choice([nl, nl + nl, nl + nl, nl + " " + nl, nl * 3]) if k["layout"] != "wild" else rng.choice(["", " ", nl, nl + nl, "\t" + nl, nl * 4])
                if k.get("uws") and rng.random() < 0.4:
                    # characters str.splitlines() treats as line boundaries but the line counter does not
                    sep += rng.choice(["\x0c", "\x0b", "\x1c", "\x1d", "\x1e", "\x85", "\u2028", "\u2029"]) + rng.choice(["", nl])
                if rng.random() < 0.15:
                    sep += rng.choice(["  ", "\t", "    "])       # the next block (or comment) is indented
            if kind == "icomment" and sep.strip(" \t") == "" and rng.random() < 0.8:
                sep = nl
            emit(sep)
    emit(rng.choice(["", nl, nl, "  " + nl + nl]))
    return {"text": "".join(out), "blocks": blocks}


def draw_knobs(rng, tier="quick", encoding="utf-8"):
    return {
        "nblocks": rng.choice([0, 1, 1, 2, 3, 4, 5, 6, 8, 12] if tier == "quick" else [0, 1, 2, 3, 5, 8, 12, 20, 40]),
        "nonascii": {"utf-8": rng.choice(["none", "any", "any"]), "utf-16": rng.choice(["none", "any"]),
                     "latin-1": rng.choice(["none", "latin1"]), "gbk": "none"}.get(encoding, "none"),
        "newline": rng.choice(["\n", "\n", "\n", "\r\n", "\r\n", "\r"]),
        "uws": encoding in ("utf-8", "utf-16") and rng.random() < 0.25,
        "layout": rng.choice(["pretty", "pretty", "compact", "wild"]),
        "collide": False,
        "casekeys": rng.choice([0.0, 0.0, 0.3]),
        "dupfields": rng.choice([0.0, 0.3]),
        "cycles": rng.random() < 0.15,
        "maxfields": rng.choice([0, 2, 5, 8]),
        "nest": rng.choice([0, 1, 2, 4]),
        "multiline": rng.choice([0.0, 0.2, 0.6]),
        "concat": rng.choice([0.0, 0.15, 0.4]),
        "p_entry": rng.choice([2, 6, 6]), "p_string": rng.choice([0, 1.5, 3]), "p_preamble": rng.choice([0, 0.7]),
        "p_xcomment": rng.choice([0, 1]), "p_icomment": rng.choice([0, 1.5, 3]),
    }


# ---------------------------------------------------------------- size-scaled families (C01)


def big_doc(rng, family, scale):
    """Size-scaled documents: long runs of lines, deep nesting, unterminated blocks."""
    nl = "\n"
    e = "@article{k%d,\n  title = {T},\n  year = 1999\n}\n"
    if family == "blank_runs":
        return e % 1 + nl * scale + e % 2
    if family == "banner":
        return "".join("%% banner line %d with words\n" % i for i in range(scale)) + e % 1
    if family == "many_entries":
        return "".join(e % i for i in range(max(1, scale // 4)))
    if family == "long_value":
        return "@article{k,\n  abstract = {" + "".join("line %d of text\n" % i for i in range(scale)) + "}\n}\n"
    if family == "deep_nesting":
        d = scale
        return "@article{k, title = " + "{" * d + "x" + "}" * d + "}\n" + e % 2
    if family == "deep_nesting_blocks":
        d = scale
        kind = rng.choice(["@comment{", "@preamble{", "@string{s = ", "@string{s = {", "free text "])
        close = {"@string{s = {": "}}", "free text ": ""}.get(kind, "}")
        return e % 1 + kind + "{" * d + "x" + "}" * d + close + "\n" + e % 2
    if family == "deep_quote_nesting":
        d = scale
        return "@article{k, title = \"" + "{" * d + "x" + "}" * d + "\" # " * min(d, 2000) + "s}\n" + e % 2
    if family == "long_runs":
        unit = rng.choice(["@" + "a" * 7, "@", "a", "\\", '"', "{", "}", "=", ",", "#", " ", "\t", "@a{", "@comment", "1", "é", "\r", "\r\n", "@a_b-"])
        run_ = unit * max(1, scale // max(1, len(unit)))
        where = rng.choice(["top", "value", "key", "comment", "after_at"])
        if where == "top":
            return e % 1 + run_ + "\n" + e % 2
        if where == "value":
            return "@article{k, url = {http://x.org/" + run_ + "/post}}\n" + e % 2
        if where == "key":
            return "@article{" + run_ + ", title = {T}}\n" + e % 2
        if where == "comment":
            return "@comment{" + run_ + "}\n" + e % 2
        return e % 1 + "see @" + run_ + " for details\n" + e % 2
    if family == "unicode_soup":
        pool = ["\x00", "\x0b", "\x0c", "\x1c", "\x1d", "\x1e", "\x1f", "\x85", "\u2028", "\u2029", "\u00a0", "\u200b", "\ufeff", "\u202e",
                "\u0301", "\U0001f600", "\U000e0001", "\u3000", "é", "日", "ß", "\r", "\n", "\t", " ", "@", "{", "}", '"', ",", "=", "\\", "a", "Z", "9", "_",
                "@a{", "@string{", "@comment{", "@preamble{", "k", "#"]
        return "".join(rng.choice(pool) for _ in range(scale))
    if family == "deep_unclosed":
        return e % 1 + "@article{k, title = " + "{" * scale + "x"
    if family == "unterminated_eof":
        return e % 1 + rng.choice(["@article{k2, title = {abc", "@string{s = \"x", "@comment{ never closed\n" * 3, "@preamble{ \"p", "@article{k3", "@article{k4, title"]) + nl * (scale // 10)
    if family == "long_comment_block":
        return "@comment{" + "".join("c line %d\n" % i for i in range(scale)) + "}\n" + e % 1
    if family == "mark_soup":
        marks = ["{", "}", '"', ",", "=", "\n", "@a{", "@string{", "@comment{", "x", " ", "\\"]
        return "".join(rng.choice(marks) for _ in range(scale))
    if family == "many_fields":
        return "@article{k,\n" + "".join("  f%d = {v%d},\n" % (i, i) for i in range(scale)) + "}\n"
    raise ValueError(family)


BIG_FAMILIES = ["blank_runs", "banner", "many_entries", "long_value", "deep_nesting", "deep_unclosed",
                "unterminated_eof", "long_comment_block", "mark_soup", "many_fields",
                "deep_nesting_blocks", "deep_quote_nesting", "long_runs", "long_runs", "deep_nesting_blocks", "unicode_soup", "unicode_soup"]
