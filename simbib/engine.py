"""Seeded search loop, parallel runner, confirmation, known findings, replay files.

A *machine* (simbib.machines.*) provides

    NAME, PROPS
    generate(rng, tier, prop) -> run           run = {"machine", "config", "ops"}; JSON-able
    execute(run, props)       -> RunResult     deterministic: draws nothing, reads no clock

One integer decides everything: the per-run seed is derived from
(VERIF_SEED, machine, property, tier, run index) and seeds the only PRNG the
generator sees.  execute() interprets the op list against the real code and the
reference model; the replayer calls the same execute().
"""
import concurrent.futures as cf
import faulthandler
import hashlib
import json
import multiprocessing
import os
import random
import signal
import sys
import time
import traceback
from collections import Counter

VERIF_DIR = os.path.dirname(os.path.dirname(os.path.abspath(__file__)))
REPLAY_DIR = os.environ.get("VERIF_REPLAY_DIR") or os.path.join(VERIF_DIR, "replays")
EVIDENCE_DIR = os.path.join(VERIF_DIR, "evidence")
KNOWN_FILE = os.path.join(VERIF_DIR, "known_findings.json")

SET_CAP = 2_000_000   # distinct-state / distinct-history sets stop growing here (reported as a lower bound)

EXIT_OK, EXIT_VIOLATION, EXIT_HARNESS, EXIT_NOT_REPRODUCED = 0, 1, 2, 3


class RunTimeout(BaseException):
    """Raised by the per-run wall-clock watchdog (a trigger, never an oracle)."""


class RunResult:
    __slots__ = (
        "violations", "log", "nops", "faults", "faults_eff", "probes", "states",
        "nontrivial", "precondition_miss", "skipped", "sim_steps", "artifacts",
    )

    def __init__(self):
        self.violations = []   # [{"property","clause","signature","step","message"}]
        self.log = []          # event log: tuples of JSON-able atoms
        self.nops = 0
        self.faults = Counter()
        self.faults_eff = Counter()
        self.probes = Counter()
        self.states = set()    # abstract states reached (hashable, small)
        self.nontrivial = False
        self.precondition_miss = 0
        self.skipped = 0
        self.sim_steps = 0     # logical time: real API calls made
        self.artifacts = {}    # not part of the log: material for the minimiser (e.g. the text handed to the parser)

    def violate(self, prop, clause, signature, step, message):
        self.violations.append(
            {"property": prop, "clause": clause, "signature": signature,
             "step": step, "message": str(message)[:2000]}
        )

    def event(self, *atoms):
        self.log.append(atoms)

    def digest(self):
        h = hashlib.sha256()
        for ev in self.log:
            h.update(repr(ev).encode("utf-8", "surrogatepass"))
            h.update(b"\n")
        return h.hexdigest()[:16]

    def shape(self):
        """Digest of the event log *shape* (op kind + outcome class per step)."""
        h = hashlib.sha256()
        for ev in self.log:
            h.update(repr(ev[:3]).encode("utf-8", "surrogatepass"))
        return h.hexdigest()[:12]


def run_seed(verif_seed, machine, prop, tier, index):
    s = f"{verif_seed}:{machine}:{prop}:{tier}:{index}".encode()
    return int.from_bytes(hashlib.sha256(s).digest()[:8], "big")


def get_machine(name):
    import importlib
    return importlib.import_module("simbib.machines." + name)


# ---------------------------------------------------------------- workers


def _alarm(signum, frame):
    raise RunTimeout()


def _attempt(fn, timeout_s):
    old = signal.signal(signal.SIGALRM, _alarm)
    signal.setitimer(signal.ITIMER_REAL, timeout_s)
    try:
        return fn(), None
    except RunTimeout:
        return None, "timeout"
    except RecursionError:
        return None, "harness-recursion:" + traceback.format_exc()[-1500:]
    except Exception:
        return None, traceback.format_exc()[-3000:]
    finally:
        signal.setitimer(signal.ITIMER_REAL, 0)
        signal.signal(signal.SIGALRM, old)


def _guarded_execute(mach, run, props, timeout_s):
    """execute() under a wall-clock watchdog.  Returns (result, harness_error).

    The watchdog is a trigger, not an oracle: a run that trips it is re-judged
    by the machine's execute_traced() under a deterministic line-event budget.
    Only if that attempt does not return either (time spent inside one call that
    executes no Python line, e.g. a regular expression that backtracks without
    end) does the machine's stuck_result() turn the lack of progress itself into
    the verdict."""
    res, err = _attempt(lambda: mach.execute(run, props), timeout_s)
    if err == "timeout" and hasattr(mach, "execute_traced"):
        res, err = _attempt(lambda: mach.execute_traced(run, props), timeout_s * 3)
        if err == "timeout":
            res, err = mach.stuck_result(run, props, timeout_s * 4), None
    return res, err


_CURRENT = {"index": None, "guard": False}


def _start_rss_guard():
    """A worker that grows beyond VERIF_MAX_RSS_MB (default 6000) names the run it is executing and exits, instead of
    taking the whole machine down with it (the parent then reports a HARNESS-ERROR, never a verdict)."""
    if _CURRENT["guard"]:
        return
    _CURRENT["guard"] = True
    import threading
    limit = int(os.environ.get("VERIF_MAX_RSS_MB", "6000"))

    def watch():
        while True:
            time.sleep(0.5)
            try:
                rss = int(open("/proc/self/statm").read().split()[1]) * 4096 >> 20
            except Exception:
                return
            if rss > limit:
                sys.stderr.write(f"HARNESS-ERROR worker exceeded {limit} MB resident memory while executing run index {_CURRENT['index']}\n")
                sys.stderr.flush()
                os._exit(86)

    threading.Thread(target=watch, daemon=True).start()


def work_chunk(args):
    machine, prop, tier, verif_seed, start, count, run_timeout = args
    mach = get_machine(machine)
    agg = {
        "start": start, "count": count, "runs": 0, "nops": 0, "sim_steps": 0,
        "faults": Counter(), "faults_eff": Counter(), "probes": Counter(),
        "states": set(), "shapes": set(), "nontrivial_shapes": set(),
        "precondition_miss": 0, "skipped": 0,
        "violations": {},      # signature -> (index, run, violation)
        "viol_count": Counter(),
        "harness_errors": [], "samples": [], "digest": hashlib.sha256(), "hang": False,
    }
    _start_rss_guard()
    for index in range(start, start + count):
        _CURRENT["index"] = (machine, prop, tier, verif_seed, index)
        # last line of defence against a worker that neither finishes nor reacts to the watchdog: re-armed for every
        # run (plain, traced re-run and stuck verdict together take at most 8 watchdog periods)
        faulthandler.dump_traceback_later(run_timeout * 10 + 600, exit=True)
        rng = random.Random(run_seed(verif_seed, machine, prop, tier, index))
        try:
            run = mach.generate(rng, tier, prop)
        except Exception:
            agg["harness_errors"].append((index, "generate: " + traceback.format_exc()[-3000:]))
            continue
        run["machine"] = machine
        res, err = _guarded_execute(mach, run, (prop,), run_timeout)
        if err is not None:
            agg["harness_errors"].append((index, err))
            continue
        agg["runs"] += 1
        agg["nops"] += res.nops
        agg["sim_steps"] += res.sim_steps
        agg["faults"].update(res.faults)
        agg["faults_eff"].update(res.faults_eff)
        agg["probes"].update(res.probes)
        agg["states"].update(res.states)
        agg["precondition_miss"] += res.precondition_miss
        agg["skipped"] += res.skipped
        shp = res.shape()
        agg["shapes"].add(shp)
        if res.nontrivial:
            agg["nontrivial_shapes"].add(shp)
        agg["digest"].update(res.digest().encode())
        if len(agg["samples"]) < 2 and res.nontrivial:
            agg["samples"].append({"run_index": index, "config": run.get("config"), "ops": run["ops"][:12]})
        hang = False
        for v in res.violations:
            if v["property"] != prop:
                continue
            agg["viol_count"][v["signature"]] += 1
            if v["signature"] not in agg["violations"]:
                agg["violations"][v["signature"]] = (index, run, v)
            hang = hang or v["clause"] == "hang"
        if hang:
            agg["hang"] = True
            agg["count"] = index - start + 1   # a hanging run costs minutes: give up on the rest of this chunk
            break
    faulthandler.cancel_dump_traceback_later()
    agg["digest"] = agg["digest"].hexdigest()[:16]
    # sets of tuples pickle fine; shrink states to stable short hashes
    agg["states"] = {int.from_bytes(hashlib.sha256(repr(s).encode("utf-8", "surrogatepass")).digest()[:7], "big") for s in agg["states"]}
    agg["shapes"] = {int(x, 16) for x in agg["shapes"]}
    agg["nontrivial_shapes"] = {int(x, 16) for x in agg["nontrivial_shapes"]}
    return agg


def _chunk_child(conn, args):
    try:
        conn.send(("ok", work_chunk(args)))
    except BaseException:
        try:
            conn.send(("err", traceback.format_exc()[-3000:]))
        except Exception:
            pass
    finally:
        conn.close()
        os._exit(0)


def work_chunk_isolated(args):
    """One chunk = one fresh process (forked from a pool worker that itself never runs code under test).

    The state of the process in which run i executes is then a function of (seed, chunk start, i) alone - the runs
    start .. i-1 of the same chunk - and not of which chunks the pool happened to give the same worker before.  State
    that the code under test keeps between calls (a module-level cache, a memo on a class) is thereby part of the
    deterministic history, and a violation that needs it can be replayed as a *session* (see confirm_session)."""
    ctx = multiprocessing.get_context("fork")
    rd, wr = ctx.Pipe(duplex=False)
    p = ctx.Process(target=_chunk_child, args=(wr, args))
    p.start()
    wr.close()
    try:
        kind, payload = rd.recv()
    except EOFError:
        p.join()
        raise RuntimeError(f"chunk process for runs {args[4]}..{args[4] + args[5] - 1} died (exit code {p.exitcode})")
    finally:
        rd.close()
    p.join()
    if kind == "err":
        raise RuntimeError("chunk process failed: " + payload)
    return payload


# ---------------------------------------------------------------- known findings


def load_known():
    try:
        with open(KNOWN_FILE) as f:
            data = json.load(f)
    except FileNotFoundError:
        return {}
    out = {}
    for e in data.get("findings", []):
        if e.get("status") == "known":
            out[e["signature"]] = e
    return out


# ---------------------------------------------------------------- replay files


def first_violation(res, prop, signature=None):
    for v in res.violations:
        if v["property"] == prop and (signature is None or v["signature"] == signature):
            return v
    return None


def write_replay(prop, machine, verif_seed, tier, index, run, violation, digest, minimised_from=None):
    os.makedirs(REPLAY_DIR, exist_ok=True)
    body = {
        "property": prop, "machine": machine, "verif_seed": verif_seed, "tier": tier,
        "run_index": index, "config": run.get("config"), "ops": run["ops"],
        "violation": violation, "digest": digest,
    }
    if minimised_from is not None:
        body["minimised_from_ops"] = minimised_from
    blob = json.dumps(body, indent=1, ensure_ascii=True, sort_keys=True)
    d8 = hashlib.sha256(blob.encode()).hexdigest()[:8]
    path = os.path.join(REPLAY_DIR, f"{prop}-{verif_seed}-{d8}.json")
    with open(path, "w") as f:
        f.write(blob + "\n")
    return path


def replay(prop, path):
    with open(path) as f:
        body = json.load(f)
    mach = get_machine(body["machine"])
    if body.get("kind") == "session":
        # a session: earlier runs of the same process come first (their verdicts are not judged here), the last one
        # is the run whose violation is recorded.  Only meaningful in a fresh interpreter, which ./check --replay is.
        for prev in body["session_prefix"]:
            _guarded_execute(mach, {"machine": body["machine"], "config": prev.get("config"), "ops": prev["ops"]}, (prop,), 60)
    run = {"machine": body["machine"], "config": body.get("config"), "ops": body["ops"]}
    res, err = _guarded_execute(mach, run, (prop,), 60)
    if err is not None:
        print(f"HARNESS-ERROR replay of {path}: {err}")
        return EXIT_HARNESS
    want = body["violation"]
    v = first_violation(res, prop, want["signature"])
    if v is not None and v["step"] == want["step"] and v["clause"] == want["clause"]:
        known = load_known()
        print(f"replayed {path}: {v['signature']} at step {v['step']}: {v['message'][:300]}")
        print(f"event-log digest {res.digest()} (recorded {body.get('digest')})")
        if v["signature"] in known:
            print(f"KNOWN-FINDING: property={prop} {known[v['signature']]['what']}")
            return EXIT_OK
        print(f"VIOLATION property={prop} replay={path}")
        return EXIT_VIOLATION
    got = [(x["signature"], x["step"]) for x in res.violations if x["property"] == prop]
    print(f"NOT-REPRODUCED {path}: wanted {want['signature']}@{want['step']}, got {got[:5]}")
    return EXIT_NOT_REPRODUCED


# ---------------------------------------------------------------- sessions (state kept by the code under test between runs)


def _regenerate(mach, machine, prop, tier, verif_seed, index):
    rng = random.Random(run_seed(verif_seed, machine, prop, tier, index))
    run = mach.generate(rng, tier, prop)
    run["machine"] = machine
    return run


def _session_body(prop, machine, verif_seed, tier, indices, runs, violation):
    last = runs[-1]
    return {
        "kind": "session", "property": prop, "machine": machine, "verif_seed": verif_seed, "tier": tier,
        "run_index": indices[-1], "session_indices": list(indices),
        "session_prefix": [{"config": r.get("config"), "ops": r["ops"]} for r in runs[:-1]],
        "config": last.get("config"), "ops": last["ops"], "violation": violation, "digest": None,
    }


def _session_reproduces(prop, body, tmpdir, timeout_s):
    """Replay a candidate session in a fresh interpreter (the same code path a user's --replay takes)."""
    import subprocess
    path = os.path.join(tmpdir, "candidate.json")
    with open(path, "w") as f:
        json.dump(body, f)
    env = dict(os.environ, PYTHONPATH=VERIF_DIR + os.pathsep + os.environ.get("PYTHONPATH", ""))
    try:
        r = subprocess.run([sys.executable, "-m", "simbib.cli", prop, "--replay", path], cwd=VERIF_DIR, env=env,
                           capture_output=True, text=True, timeout=timeout_s)
    except subprocess.TimeoutExpired:
        return False
    return r.returncode in (EXIT_VIOLATION, EXIT_OK) and "replayed " in r.stdout


def confirm_session(prop, machine, tier, verif_seed, chunk_start, index, violation, run_timeout, budget_s=120.0):
    """A violation seen in a worker that the same op list does not show in the parent: either the harness is not
    deterministic (HARNESS-ERROR, as before) or the code under test kept state from an earlier run of the same process.
    Decide by replaying the runs chunk_start..index in a fresh interpreter; if the violation is there (twice), shrink
    the prefix (one earlier run, then halving) and return the session body.  None means: not reproducible."""
    import tempfile
    import shutil
    mach = get_machine(machine)
    t0 = time.time()
    indices = list(range(chunk_start, index + 1))
    try:
        runs = {i: _regenerate(mach, machine, prop, tier, verif_seed, i) for i in indices}
    except Exception:
        return None
    tmpdir = tempfile.mkdtemp(prefix="simbib_session_")
    per_try = max(120, run_timeout * 2)

    def ok(ix):
        return _session_reproduces(prop, _session_body(prop, machine, verif_seed, tier, ix, [runs[i] for i in ix], violation),
                                   tmpdir, per_try)
    try:
        if not ok(indices):
            return None
        best = indices
        # most state leaks need one earlier run: try pairs, nearest first
        for j in reversed(indices[:-1]):
            if time.time() - t0 > budget_s / 2:
                break
            if ok([j, index]):
                best = [j, index]
                break
        else:
            pass
        if len(best) > 2:
            # halve the prefix while the violation stays
            while len(best) > 2 and time.time() - t0 < budget_s:
                half = best[:-1][len(best[:-1]) // 2:] + [index]
                if ok(half):
                    best = half
                    continue
                half = best[:-1][: len(best[:-1]) // 2] + [index]
                if ok(half):
                    best = half
                    continue
                break
        if not ok(best):        # second, independent replay of the final session
            return None
        return _session_body(prop, machine, verif_seed, tier, best, [runs[i] for i in best], violation)
    finally:
        shutil.rmtree(tmpdir, ignore_errors=True)


def write_session_replay(body):
    os.makedirs(REPLAY_DIR, exist_ok=True)
    blob = json.dumps(body, indent=1, ensure_ascii=True, sort_keys=True)
    d8 = hashlib.sha256(blob.encode()).hexdigest()[:8]
    path = os.path.join(REPLAY_DIR, f"{body['property']}-{body['verif_seed']}-session-{d8}.json")
    with open(path, "w") as f:
        f.write(blob + "\n")
    return path


# ---------------------------------------------------------------- the check


def default_workers():
    try:
        return int(os.environ.get("VERIF_WORKERS", "0")) or min(16, os.cpu_count() or 1)
    except ValueError:
        return min(16, os.cpu_count() or 1)


def run_check(prop, machine, tier, verif_seed, total_runs, chunk, budget_s, run_timeout,
              evidence_extra, workers=None, write_evidence=True, quiet=False):
    from . import shrink, evidence

    t0 = time.time()
    workers = workers or default_workers()
    mach = get_machine(machine)
    known = load_known()

    chunks = [(machine, prop, tier, verif_seed, s, min(chunk, total_runs - s), run_timeout)
              for s in range(0, total_runs, chunk)]
    results = {}
    harness_errors = []
    truncated = False
    ctx = multiprocessing.get_context("fork")
    with cf.ProcessPoolExecutor(max_workers=workers, mp_context=ctx) as ex:
        pending = {}
        it = iter(chunks)

        def submit_more():
            nonlocal truncated
            while len(pending) < workers + 2:
                if time.time() - t0 > budget_s:
                    truncated = True
                    return
                a = next(it, None)
                if a is None:
                    return
                pending[ex.submit(work_chunk_isolated, a)] = a

        submit_more()
        try:
            while pending:
                done, _ = cf.wait(list(pending), timeout=max(run_timeout * 6, 900),
                                  return_when=cf.FIRST_COMPLETED)
                if not done:
                    harness_errors.append((-1, "worker batch made no progress; giving up"))
                    for f in pending:
                        f.cancel()
                    break
                for f in done:
                    a = pending.pop(f)
                    try:
                        results[a[4]] = f.result()
                        if results[a[4]].get("hang"):
                            budget_s = 0      # a hang was found: stop handing out work, report
                    except Exception as e:  # BrokenProcessPool etc.
                        harness_errors.append((a[4], f"worker died: {e!r}"))
                submit_more()
        except cf.process.BrokenProcessPool as e:
            harness_errors.append((-1, f"pool broken: {e!r}"))

    # merge in run-index order: the aggregate does not depend on the worker count
    tot = {
        "runs": 0, "nops": 0, "sim_steps": 0, "faults": Counter(), "faults_eff": Counter(),
        "probes": Counter(), "states": set(), "shapes": set(), "nontrivial_shapes": set(),
        "precondition_miss": 0, "skipped": 0, "viol_count": Counter(), "samples": [],
    }
    violations = {}
    saturated = set()
    dg = hashlib.sha256()
    last_index = -1
    for s in sorted(results):
        r = results[s]
        for k in ("runs", "nops", "sim_steps", "precondition_miss", "skipped"):
            tot[k] += r[k]
        for k in ("faults", "faults_eff", "probes", "viol_count"):
            tot[k].update(r[k])
        for k in ("states", "shapes", "nontrivial_shapes"):
            if len(tot[k]) < SET_CAP:
                tot[k] |= r[k]
            else:
                saturated.add(k)
        if len(tot["samples"]) < 3:
            tot["samples"].extend(r["samples"][: 3 - len(tot["samples"])])
        dg.update(r["digest"].encode())
        harness_errors.extend(r["harness_errors"])
        last_index = max(last_index, r["start"] + r["count"] - 1)
        for sig, triple in r["violations"].items():
            if sig not in violations:
                violations[sig] = triple

    exit_code = EXIT_OK
    known_hit = {}
    new_viol = []
    session_viol = []      # violations that need state left behind by an earlier run of the same process
    for sig in sorted(violations):
        index, run, v = violations[sig]
        # confirm by re-execution in the parent from the op list alone
        res, err = _guarded_execute(mach, run, (prop,), run_timeout)
        if err is not None:
            harness_errors.append((index, f"confirming {sig}: {err}"))
            continue
        v2 = first_violation(res, prop, sig)
        if v2 is None or v2["step"] != v["step"]:
            body = None
            if len(session_viol) < 3 and sig not in known:
                body = confirm_session(prop, machine, tier, verif_seed, (index // chunk) * chunk, index, v, run_timeout)
            if body is None:
                harness_errors.append((index, f"violation {sig} did not reproduce in parent, nor as a session of the "
                                              f"runs before it in a fresh interpreter (nondeterminism in harness)"))
            else:
                session_viol.append((sig, index, body))
            continue
        if sig in known:
            known_hit[sig] = tot["viol_count"][sig]
            continue
        new_viol.append((sig, index, run, v2, res.digest()))

    if not quiet:
        for sig in sorted(known_hit):
            print(f"KNOWN-FINDING: property={prop} {known[sig]['what']} [signature {sig}; {known_hit[sig]} runs]")

    replay_paths = []
    for n, (sig, index, run, v, digest) in enumerate(new_viol):
        exit_code = EXIT_VIOLATION
        n_before = len(run["ops"])
        if n < 4:
            try:
                run_m, v_m, dig_m = shrink.minimise(mach, run, prop, v, budget_s=25.0)
            except Exception:
                harness_errors.append((index, "minimiser: " + traceback.format_exc()[-1500:]))
                run_m, v_m, dig_m = run, v, digest
        else:
            run_m, v_m, dig_m = run, v, digest
        path = write_replay(prop, machine, verif_seed, tier, index, run_m, v_m, dig_m, n_before)
        replay_paths.append(path)
        print(f"violation: {sig} (run {index}, {tot['viol_count'][sig]} runs; {n_before} ops -> {len(run_m['ops'])}): {v_m['message'][:400]}")
        print(f"VIOLATION property={prop} replay={path}")

    for sig, index, body in session_viol:
        exit_code = EXIT_VIOLATION
        path = write_session_replay(body)
        replay_paths.append(path)
        print(f"violation: {sig} (run {index}, only after run(s) {body['session_indices'][:-1][:6]} in the same process: "
              f"the code under test keeps state between calls; {tot['viol_count'][sig]} runs): {body['violation']['message'][:400]}")
        print(f"VIOLATION property={prop} replay={path}")

    for index, err in harness_errors[:5]:
        print(f"HARNESS-ERROR run={index}: {err}", file=sys.stderr)
    if harness_errors and exit_code == EXIT_OK:
        exit_code = EXIT_HARNESS
    if tot["runs"] == 0 and exit_code == EXIT_OK:
        print("HARNESS-ERROR no run completed", file=sys.stderr)
        exit_code = EXIT_HARNESS

    wall = time.time() - t0
    summary = {
        "prop": prop, "machine": machine, "tier": tier, "seed": verif_seed, "wall_s": wall,
        "tot": tot, "digest": dg.hexdigest()[:16], "last_index": last_index,
        "truncated": truncated, "requested_runs": total_runs, "workers": workers,
        "known_hit": known_hit, "new_violations": [(s, p) for (s, *_), p in zip(new_viol + session_viol, replay_paths)],
        "harness_errors": len(harness_errors), "exit_code": exit_code, "saturated": sorted(saturated),
    }
    if write_evidence:
        evidence.write(summary, evidence_extra)
    if not quiet:
        zero = [p for p in evidence_extra.get("expected_probes", []) if tot["probes"].get(p, 0) == 0]
        for p in zero:
            print(f"WARN probe {p} never hit")
        print(
            f"{prop} {tier} seed={verif_seed}: {tot['runs']} runs ({tot['nops']} ops, {tot['sim_steps']} sim-steps) "
            f"in {wall:.1f}s on {workers} workers; {len(tot['states'])} abstract states, "
            f"{len(tot['nontrivial_shapes'])} distinct non-trivial histories; faults {sum(tot['faults'].values())}; "
            f"violations new={len(new_viol) + len(session_viol)} known={len(known_hit)}; digest {summary['digest']}"
            + (" [wall budget reached before all runs]" if truncated else "")
        )
    return exit_code, summary
