"""Simulated storage under CPython's real text / buffer layers.

SimDisk.open mimics builtins.open for the subset the library uses; it is
installed by shadowing the module-global name `open` in bibtexparser.entrypoint
(`installed(disk)` context manager), so no source hook is needed.

Raw device faults (consulted on every raw readinto/write while a plan is armed):
  short : transfer only `arg` (>=1) bytes            -> io layers must retry
  eintr : raise InterruptedError(EINTR) once          -> io layers must retry (PEP 475)
  eio   : raise OSError(EIO)                          -> must propagate
  enospc: raise OSError(ENOSPC) (writes)              -> must propagate
"""
import contextlib
import errno
import io


class SimRaw(io.RawIOBase):
    def __init__(self, disk, path, reading, writing, appending):
        super().__init__()
        self.disk, self.path = disk, path
        self._r, self._w = reading, writing
        self.pos = len(disk.files[path]) if appending else 0
        self.name = path
        self.mode = "rb" if reading and not writing else "wb"

    def readable(self):
        return self._r

    def writable(self):
        return self._w

    def seekable(self):
        return True

    def seek(self, off, whence=0):
        n = len(self.disk.files[self.path])
        self.pos = {0: off, 1: self.pos + off, 2: n + off}[whence]
        return self.pos

    def tell(self):
        return self.pos

    def truncate(self, size=None):
        size = self.pos if size is None else size
        del self.disk.files[self.path][size:]
        return size

    def _fault(self, kind_ok):
        d = self.disk
        idx = d.raw_calls
        d.raw_calls += 1
        f = d.plan.get(idx)
        if f is None or f["kind"] not in kind_ok:
            return None
        d.fired.append((idx, f["kind"]))
        return f

    def readinto(self, b):
        if not self._r:
            raise io.UnsupportedOperation("not readable")
        f = self._fault(("short", "eintr", "eio"))
        if f is not None:
            if f["kind"] == "eintr":
                raise InterruptedError(errno.EINTR, "simulated EINTR")
            if f["kind"] == "eio":
                raise OSError(errno.EIO, "simulated I/O error", self.path)
        data = self.disk.files[self.path]
        n = min(len(b), len(data) - self.pos)
        if n <= 0:
            return 0
        if f is not None and f["kind"] == "short":
            n = max(1, min(n, int(f.get("arg", 1))))
            if n > 0:
                self.disk.short_reads += 1
        b[:n] = data[self.pos:self.pos + n]
        self.pos += n
        self.disk.read_sizes.append(n)
        return n

    def write(self, b):
        if not self._w:
            raise io.UnsupportedOperation("not writable")
        f = self._fault(("short", "eintr", "eio", "enospc"))
        if f is not None:
            if f["kind"] == "eintr":
                raise InterruptedError(errno.EINTR, "simulated EINTR")
            if f["kind"] == "eio":
                raise OSError(errno.EIO, "simulated I/O error", self.path)
            if f["kind"] == "enospc":
                raise OSError(errno.ENOSPC, "simulated: no space left on device", self.path)
        b = bytes(b)
        n = len(b)
        if f is not None and f["kind"] == "short" and n > 1:
            n = max(1, min(n - 1, int(f.get("arg", 1))))
        data = self.disk.files[self.path]
        if self.pos > len(data):
            data.extend(b"\0" * (self.pos - len(data)))
        data[self.pos:self.pos + n] = b[:n]
        self.pos += n
        self.disk.raw_writes.append(n)
        return n

    def close(self):
        if not self.closed:
            self.disk.open_handles -= 1
        super().close()


class SimDisk:
    def __init__(self, locale="utf-8", platform_newline="\n", buffer_size=8192):
        self.files = {}
        self.locale = locale
        self.platform_newline = platform_newline
        self.buffer_size = buffer_size
        self.plan = {}
        self.raw_calls = 0
        self.fired = []
        self.short_reads = 0
        self.read_sizes = []
        self.raw_writes = []
        self.open_handles = 0
        self.open_fault = None
        self.opens = []          # (path, mode, encoding, newline) per open() call

    def arm(self, faults):
        faults = faults or []
        self.open_fault = next((f["kind"] for f in faults if f["call"] == "open"), None)
        self.plan = {int(f["call"]): f for f in faults if f["call"] != "open"}
        self.raw_calls = 0
        self.fired = []
        self.short_reads = 0
        self.read_sizes = []
        self.raw_writes = []

    def disarm(self):
        self.plan = {}
        self.open_fault = None

    def put(self, path, data):
        self.files[path] = bytearray(data)

    def get(self, path):
        return bytes(self.files[path])

    def open(self, file, mode="r", buffering=-1, encoding=None, errors=None, newline=None, closefd=True, opener=None):
        if not isinstance(file, str):
            raise TypeError(f"simulated open() needs a str path, got {type(file).__name__}")
        m = set(mode)
        binary = "b" in m
        reading = "r" in m or "+" in m
        writing = bool(m & {"w", "a", "x", "+"})
        self.opens.append((file, mode, encoding, newline, errors))
        if getattr(self, "open_fault", None):
            kind, self.open_fault = self.open_fault, None
            self.fired.append(("open", kind))
            if kind == "eacces":
                raise PermissionError(errno.EACCES, "simulated: permission denied", file)
            if kind == "eisdir":
                raise IsADirectoryError(errno.EISDIR, "simulated: is a directory", file)
            if kind == "emfile":
                raise OSError(errno.EMFILE, "simulated: too many open files", file)
            raise FileNotFoundError(errno.ENOENT, "simulated: no such file or directory", file)
        if "r" in m and file not in self.files:
            raise FileNotFoundError(errno.ENOENT, "No such file or directory", file)
        if "x" in m and file in self.files:
            raise FileExistsError(errno.EEXIST, "File exists", file)
        if "w" in m or ("x" in m) or ("a" in m and file not in self.files):
            if "w" in m or file not in self.files:
                self.files[file] = bytearray()
        raw = SimRaw(self, file, reading, writing, "a" in m)
        self.open_handles += 1
        bs = self.buffer_size if buffering in (-1, None) or buffering <= 1 else buffering
        if reading and writing:
            buf = io.BufferedRandom(raw, bs)
        elif writing:
            buf = io.BufferedWriter(raw, bs)
        else:
            buf = io.BufferedReader(raw, bs)
        if binary:
            return buf
        enc = encoding if encoding is not None else self.locale
        if newline is None and writing and not reading:
            # text mode, newline=None: "\n" is written as the platform's line separator
            nl = self.platform_newline if self.platform_newline != "\n" else ""
            # TextIOWrapper(newline="") writes "\n" untouched; (newline="\r\n") translates
            return io.TextIOWrapper(buf, encoding=enc, errors=errors, newline=nl)
        return io.TextIOWrapper(buf, encoding=enc, errors=errors, newline=newline)


@contextlib.contextmanager
def installed(disk):
    """Shadow builtins.open inside bibtexparser.entrypoint for the duration."""
    from .repo import entrypoint
    had = "open" in entrypoint.__dict__
    old = entrypoint.__dict__.get("open")
    entrypoint.open = disk.open
    try:
        yield disk
    finally:
        if had:
            entrypoint.open = old
        else:
            del entrypoint.open


def expected_written_bytes(text, encoding, platform_newline):
    """What a correct text-mode write of `text` leaves on the device."""
    if platform_newline != "\n":
        text = text.replace("\n", platform_newline)
    return text.encode(encoding)


def universal_newlines(text):
    return text.replace("\r\n", "\n").replace("\r", "\n")
